#!/bin/bash
# seedall.sh [pattern]: sensitivity matrix. Applies every seeded change (seeded/<id>/patch.diff) in turn to a scratch
# worktree of /repo HEAD under /tmp, runs the quick check of the property it breaks against that worktree
# (VERIF_REPO, so /repo, evidence/ and replays/ are untouched) and reports caught / MISSED. The worktree is removed at the end.
cd /verif
wt=/tmp/seedall-wt-$$
git -C /repo worktree remove --force $wt >/dev/null 2>&1
git -C /repo worktree add -q --detach $wt HEAD || exit 3
trap 'git -C /repo worktree remove --force $wt >/dev/null 2>&1; git -C /repo worktree prune' EXIT
out=${SEEDALL_OUT:-work/seedall.txt}; touch $out
for d in seeded/${1:-*}/; do
  id=$(basename $d); prop=${id%%-*}
  if ! git -C $wt apply --check $PWD/$d/patch.diff 2>/dev/null; then grep -v "^$id " $out > $out.tmp; mv $out.tmp $out; echo "$id NOAPPLY" | tee -a $out; continue; fi
  git -C $wt apply $PWD/$d/patch.diff
  VERIF_REPO=$wt ./check $prop quick > work/seedall-$id.log 2>&1; rc=$?
  git -C $wt checkout -q -- .
  case $rc in 1) res=caught;; 0) res=MISSED;; *) res="INCONCLUSIVE($rc)";; esac
  grep -v "^$id " $out > $out.tmp; mv $out.tmp $out
  echo "$id $res" | tee -a $out
  [ $rc = 1 ] && rm -f work/seedall-$id.log
done
[ -z "${SEEDALL_OUT:-}" ] && rm -rf work/alt

#!/usr/bin/env python3
"""seedsave.py <worktree> <i> <seed-id> <property> <caught: comma list of 'Cxx:tier'> <needs...>  - copy a confirmed seeded change into /verif/seeded/<seed-id>/"""
import sys, os, shutil, json, glob
wt, i, sid, prop, caught = sys.argv[1:6]
needs = " ".join(sys.argv[6:])
src = os.path.join(wt, "SEEDED", i)
dst = os.path.join("/verif/seeded", sid)
shutil.rmtree(dst, ignore_errors=True)
os.makedirs(dst)
for f in glob.glob(src + "/*"):
    if os.path.isfile(f) and os.path.getsize(f) < 200000:
        shutil.copy(f, dst)
    elif os.path.isdir(f) and not os.path.basename(f).startswith((".", "__")):
        shutil.copytree(f, os.path.join(dst, os.path.basename(f)), ignore=shutil.ignore_patterns("__pycache__", "*.pyc"))
notes = open(os.path.join(src, "NOTES.md")).read() if os.path.exists(os.path.join(src, "NOTES.md")) else ""
meta = {
    "id": sid, "breaks_property": prop,
    "needs_to_manifest": needs,
    "confirmed": "patch applies to /repo HEAD; baseline suite (go test -vet=off -count=1 ./...) passes with it; the demonstration fails with it and passes without it (tools/seedverify.sh, run in a scratch worktree under /tmp)",
    "checks_run": [{"check": c.split(":")[0], "tier": c.split(":")[1], "result": c.split(":")[2] if c.count(":") > 1 else "VIOLATION reported"} for c in caught.split(",") if c],
    "how_run": "tools/seedtest.sh seeded/%s/patch.diff <Cxx> <tier>  (git -C /repo apply; ./check; git -C /repo checkout -- .)" % sid,
    "author": "independent sub-agent given only the property text and a scratch worktree",
}
json.dump(meta, open(os.path.join(dst, "meta.json"), "w"), indent=1)
print("saved", dst, os.listdir(dst))

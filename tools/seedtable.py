#!/usr/bin/env python3
"""seedtable.py: markdown table of the seeded changes (seeded/*/meta.json) joined with the last sensitivity matrix (work/seedall.txt)"""
import json, glob, os
last = {}
if os.path.exists("/verif/work/seedall.txt"):
    for l in open("/verif/work/seedall.txt"):
        p = l.split()
        if len(p) >= 2:
            last[p[0]] = p[1]
print("| seeded change | needs, to manifest | first run | now (quick tier) |")
print("|---|---|---|---|")
for d in sorted(glob.glob("/verif/seeded/*/")):
    m = json.load(open(d + "meta.json"))
    first = []
    for c in m["checks_run"]:
        res = c["result"]
        first.append("%s %s: %s" % (c["check"], c["tier"], "caught" if res.startswith("VIOLATION") else res))
    now = "superseded" if m.get("superseded") else last.get(m["id"], "?")
    print("| `%s` | %s | %s | %s |" % (m["id"], m["needs_to_manifest"].replace("|", "/"), "; ".join(first).replace("|", "/"), now))

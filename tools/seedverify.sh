#!/bin/bash
# seedverify.sh <worktree> <i>: confirm an agent's seeded change in its scratch worktree: patch applies, baseline passes, demo differs with it and matches without it
wt="$1"; i="$2"; d="$wt/SEEDED/$i"
export GOFLAGS=-mod=mod GOPROXY=off GOSUMDB=off GOTOOLCHAIN=local
cd "$wt" || exit 3
git checkout -q -- . ; 
git apply --check "$d/patch.diff" || { echo "PATCH-DOES-NOT-APPLY"; exit 3; }
run_demo() {
  if [ -f "$d/demo.py" ]; then
    go build -o "$wt/gpython-bin" . || return 9
    (cd "$d" && timeout 120 "$wt/gpython-bin" demo.py > "$d/.out" 2>&1); 
    if diff -q "$d/.out" "$d/expected.txt" >/dev/null; then echo "demo=matches-expected"; else echo "demo=DIFFERS ($(diff "$d/.out" "$d/expected.txt" | grep -c '^[<>]') lines)"; fi
    rm -f "$wt/gpython-bin" "$d/.out"
  else echo "demo=(no demo.py: $(ls $d | tr '\n' ' '))"; fi
}
echo -n "WITHOUT: "; run_demo
git apply "$d/patch.diff"
echo -n "WITH:    "; run_demo
echo -n "BASELINE with change: "; go test -vet=off -count=1 $(go list ./... 2>/dev/null | grep -v /SEEDED) 2>&1 | grep -c "^FAIL\|^--- FAIL" 
git checkout -q -- .

#!/usr/bin/env python3
"""hunks.py list                      -> numbered hunks of the unstaged diff in /repo
   hunks.py commit "msg" N [N...]     -> stage exactly those hunks and commit"""
import subprocess, sys, re
def diff():
    out = subprocess.run(["git", "-C", "/repo", "diff", "-U3"], stdout=subprocess.PIPE, text=True).stdout
    files = re.split(r'(?m)^(?=diff --git )', out)
    hunks = []
    for f in files:
        if not f.strip(): continue
        parts = re.split(r'(?m)^(?=@@ )', f)
        head = parts[0]
        for h in parts[1:]:
            hunks.append((head, h))
    return hunks
hs = diff()
if sys.argv[1] == "list":
    for i, (head, h) in enumerate(hs):
        fn = re.search(r'^\+\+\+ b/(.*)$', head, re.M).group(1)
        print("==== [%d] %s" % (i, fn)); print(h[:1500])
elif sys.argv[1] == "commit":
    msg = sys.argv[2]; idx = [int(x) for x in sys.argv[3:]]
    byfile = {}
    for i in idx:
        head, h = hs[i]; byfile.setdefault(head, []).append(h)
    patch = "".join(head + "".join(v) for head, v in byfile.items())
    p = subprocess.run(["git", "-C", "/repo", "apply", "--cached", "--recount", "-"], input=patch, text=True)
    if p.returncode: sys.exit("apply failed")
    subprocess.run(["git", "-C", "/repo", "commit", "-q", "-m", msg], check=True)
    print(subprocess.run(["git", "-C", "/repo", "log", "--oneline", "-1"], stdout=subprocess.PIPE, text=True).stdout)

#!/usr/bin/env python3
"""Regenerates /verif/MANIFEST.json from checks.json (which checks exist) and the texts below."""
import json, os, subprocess
ROOT = os.path.dirname(os.path.dirname(os.path.abspath(__file__)))
cfg = json.load(open(os.path.join(ROOT, "checks.json")))
props = [json.loads(l) for l in open(os.path.join(ROOT, "properties.jsonl"))]
META = json.load(open(os.path.join(ROOT, "tools", "meta.json")))
hooks_commits = []
try:
    out = subprocess.run(["git", "-C", "/repo", "log", "--format=%H %s"], stdout=subprocess.PIPE, text=True).stdout
    hooks_commits = [l.split()[0] for l in out.splitlines() if " hook:" in l or l.split(" ", 1)[1].startswith("hook")]
except Exception:
    pass
checks, na = [], []
for p in props:
    pid = p["id"]
    m = META.get(pid, {})
    if pid in cfg and not cfg[pid].get("disabled"):
        c = {
            "property_id": pid,
            "quick_cmd": "./check %s quick" % pid,
            "thorough_cmd": "./check %s thorough" % pid,
            "evidence_file": "/verif/evidence/%s.json" % pid,
            "replay_cmd_template": "./check %s --replay {path}" % pid,
            "engine": m.get("engine", "harness"),
            "level_claimed": {"category": cfg[pid].get("level", "exploration"), "text": m.get("text", ""), "design_ref": "DESIGN.md section 6, " + pid},
            "level_note": m.get("note", ""),
            "technique": m.get("technique", "property-based testing"),
        }
        checks.append(c)
    else:
        na.append({"property_id": pid, "reason": m.get("na", "check not built yet in this session (see DESIGN.md)")})
man = {
    "version": 1,
    "setup_cmd": "./setup.sh",
    "hooks": {
        "guard": "verif",
        "enable": "go test -tags verif (the harness go.mod replaces github.com/go-python/gpython with /repo)",
        "baseline_off_cmd": "cd /repo && go test -vet=off -count=1 ./...",
        "source_commits": hooks_commits,
        "add_only": True,
    },
    "engines": [
        {"name": "harness", "path": "/verif/harness", "serves_properties": [c["property_id"] for c in checks],
         "kind_free_text": "one Go test module (rapid v1.3.0 + enumerators + native fuzz targets) driven by /verif/check; CPython 3.6 oracle server in /verif/oracle"},
    ],
    "checks": checks,
    "not_applicable": na,
    "notes": "Every check is a generated-input search against an explicit oracle (DESIGN.md). Exit 2 = inconclusive (infrastructure), never a verdict.",
}
json.dump(man, open(os.path.join(ROOT, "MANIFEST.json"), "w"), indent=1)
print("checks:", [c["property_id"] for c in checks], "not_applicable:", [n["property_id"] for n in na])

#!/bin/bash
# seedtest.sh <patch.diff> <Cxx> [tier] : apply a seeded change to /repo, run the check, undo it straight afterwards
set -u
patch="$1"; prop="$2"; tier="${3:-quick}"
cd /verif
if [ -n "$(git -C /repo status --porcelain)" ]; then echo "/repo not clean"; exit 3; fi
git -C /repo apply "$patch" || { echo "patch does not apply"; exit 3; }
trap 'git -C /repo checkout -- . ; git -C /repo clean -fdq -- . >/dev/null 2>&1' EXIT
out=$(./check "$prop" "$tier" 2>&1); rc=$?
echo "$out" | grep -v "^KNOWN-FINDING\|^built " | tail -${SEED_TAIL:-12}
echo "SEEDTEST prop=$prop tier=$tier exit=$rc"
rm -rf /verif/replays/$prop
exit $rc

#!/usr/bin/env python3
import json,sys
prop=sys.argv[1]; cut=sys.argv[2] if len(sys.argv)>2 else None
t=json.load(open('/verif/work/triage_%s.json'%prop))
for sig,e in sorted(t.items(), key=lambda kv:-kv[1]['count']):
    ex=e['example']
    print('=====',sig,e['count'])
    p=ex.get('program','')
    if cut and cut in p: p=p.split(cut,1)[1]
    print(p[:2500]); print('EXP',str(ex.get('expected',''))[:400]); print('ACT',str(ex.get('actual',''))[:400]); print(str(ex.get('detail',''))[:400])

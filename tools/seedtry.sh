#!/bin/bash
# seedtry.sh <patch> <Cxx> [tier]: run a check against a scratch worktree of /repo HEAD with the patch applied (VERIF_REPO); /repo, evidence/ and replays/ untouched
patch="$1"; prop="$2"; tier="${3:-quick}"
cd /verif
wt=/tmp/seedtry-wt-$$
git -C /repo worktree add -q --detach $wt HEAD || exit 3
trap 'git -C /repo worktree remove --force $wt >/dev/null 2>&1' EXIT
git -C $wt apply "$patch" || { echo "patch does not apply"; exit 3; }
out=$(VERIF_REPO=$wt ./check "$prop" "$tier" 2>&1); rc=$?
echo "$out" | grep -v "^KNOWN-FINDING\|^built " | tail -${SEED_TAIL:-6} | cut -c1-300
echo "SEEDTRY prop=$prop tier=$tier exit=$rc"
exit $rc

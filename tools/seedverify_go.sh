#!/bin/bash
# seedverify_go.sh <worktree> <i> <package dir> <demo test file (.go.txt or .go)> [extra go test flags]: confirm a seeded change whose demonstration is a Go test
wt="$1"; i="$2"; pkg="$3"; tf="$4"; shift 4
d="$wt/SEEDED/$i"
export GOFLAGS=-mod=mod GOPROXY=off GOSUMDB=off GOTOOLCHAIN=local
cd "$wt" || exit 3
git checkout -q -- .
git apply --check "$d/patch.diff" || { echo "PATCH-DOES-NOT-APPLY"; exit 3; }
dst="$pkg/zz_seed_demo_test.go"
cp "$d/$tf" "$dst"
run_demo() { if go test -vet=off -count=1 "$@" "./$pkg/" >"$d/.out" 2>&1; then echo "demo=PASS"; else echo "demo=FAIL ($(grep -c -- '--- FAIL' "$d/.out") failing tests)"; fi; rm -f "$d/.out"; }
echo -n "WITHOUT: "; run_demo "$@"
git apply "$d/patch.diff"
echo -n "WITH:    "; run_demo "$@"
rm -f "$dst"
echo -n "BASELINE with change: "; go test -vet=off -count=1 $(go list ./... 2>/dev/null | grep -v /SEEDED) 2>&1 | grep -c "^FAIL\|^--- FAIL"
git checkout -q -- .

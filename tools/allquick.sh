#!/bin/bash
# allquick.sh [tier]: run every property's check in turn and print one summary line each
cd /verif
tier=${1:-quick}
for i in $(seq -w 1 20); do ./check C$i $tier 2>&1 | grep "^C$i $tier:\|^VIOLATION\|^INCONCLUSIVE" | cut -c1-200; done

//go:build verif

package harness

// Texts the 3.4 grammar / compiler forbids (reject templates), shared by C06, C11 and C12.
var rejectTemplates = []string{
	"def f(a=1, b): pass\n", "def f(a, b=1, c): pass\n", "lambda a=1, b: 0\n", "f(a=1, 2)\n", "f(**k, a)\n", "f(x for x in y, 1)\n", "f(1, x for x in y)\n", "def f(*): pass\n", "def f(*, **k): pass\n",
	"lambda *: 0\n", "1 = x\n", "'a' = x\n", "None = 1\n", "True = 1\n", "f() = 1\n", "a + b = 1\n", "(a, 1) = x\n", "(1, x) = 2\n", "1.5, x = 1\n", "[a, 1] = x\n", "[a, f()] = x\n", "(a, (b, 2)) = x\n", "-a = 1\n", "a.b + 1 = 2\n", "(yield) = 1\n",
	"lambda: 0 = 1\n", "a if b else c = 1\n", "[x for x in y] = 1\n", "{} = 1\n", "{a} = 1\n", "... = 1\n", "a < b = 1\n", "not a = 1\n", "a and b = 1\n",
	"del 1\n", "del f()\n", "del a + b\n", "del (a, 1)\n", "del None\n", "del [a, 'x']\n", "del a, 1\n", "del *a\n",
	"1 += 1\n", "f() += 1\n", "(a, b) += 1\n", "[a, b] += 1\n", "a, b += 1\n", "None += 1\n", "(a) += 1\n" /* legal */, "a.b += 1\n" /* legal */, "a[1] += 1\n", /* legal */
	"for 1 in x: pass\n", "for f() in x: pass\n", "for a, 1 in x: pass\n", "for None in x: pass\n", "with a as 1: pass\n", "with a as f(): pass\n", "with a as (b, 1): pass\n",
	"[x for 1 in y]\n", "[x for f() in y]\n", "import a as 1\n", "from a import b as 1\n", "except: pass\n", "try: pass\n", "try:\n    pass\nexcept:\n    pass\nexcept A:\n    pass\n",
	"break\n", "continue\n", "try:\n    break\nexcept:\n    pass\n", "try:\n    pass\nfinally:\n    continue\n", "with a:\n    break\n", "if a:\n    continue\n", "class A:\n    break\n",
	"def f():\n    break\n", "for x in y:\n    def f():\n        break\n", "while a:\n    class B:\n        continue\n", "for x in y:\n    pass\nelse:\n    break\n",
	"while x:\n    try:\n        pass\n    finally:\n        continue\n",
	"return 1\n", "yield 1\n", "x = yield\n", "class A:\n    return 1\n", "class A:\n    yield 1\n", "lambda: (yield)\n" /* legal */, "def f():\n    return 1\n    yield 2\n", /* legal in 3.4 */
	"nonlocal a\n", "def f():\n    nonlocal a\n", "def f(a):\n    global a\n", "def f(a, a): pass\n", "f(a=1, a=2)\n", "f(**a, **b)\n", "f(*a, *b)\n", "f(*a, b)\n", "f(a for a in b, c for c in d)\n",
	"a, *b, *c = x\n", "*a = x\n", "*a, = x\n" /* legal */, "x = *a\n", "x = *a, b\n", "f(*a) = 1\n", "print(*a, *b)\n", "[*a]\n", "(*a)\n", "*a\n", "del *a, b\n",
	"b'a' 'b'\n", "'a' b'b'\n", "x = b'\\xff' 'a'\n", "0777\n", "0b2\n", "0o8\n", "0x\n", "1__0\n", "1e\n", "1.5j5\n", "'abc\n", "\"abc\n", "'''abc\n", "'\\x1'\n", "'\\xg0'\n", "'\\x+1'\n", "'\\u12'\n",
	"'\\u+123'\n", "'\\U0001'\n", "'\\U00110000'\n", "'\\N{nosuchname}'\n", "b'\\xzz'\n", "b'\u00e9'\n", "b'\\u00e9' == 1\n" /* legal: \u is not an escape in bytes */, "a <> b\n", "a $ b\n", "a ? b\n", "a ! b\n", "`a`\n",
	"if a:\npass\n", "if a:\n    pass\n  pass\n", "  pass\n", "if a:\n\tpass\n        pass\n", "def f():\n    pass\n   pass\n", "a = (1,\n", "a = [1\n", "a = {1: \n", "f(\n", "a = 1 +\n", "a = \\\n", "a = 1 \\ 2\n",
	"class: pass\n", "def: pass\n", "def f: pass\n", "def f(): \n", "class A(: pass\n", "if: pass\n", "else: pass\n", "elif a: pass\n", "for in x: pass\n", "while: pass\n", "import\n", "from import a\n", "from a import\n",
	"from a import (b\n", "from . import *\n" /* runtime */, "from a import *, b\n", "import a.b as c.d\n", "import a as\n", "raise from a\n", "raise a from\n", "assert\n", "assert a,\n", "global\n", "global 1\n", "global a.b\n",
	"nonlocal\n", "pass pass\n", "a b\n", "a = = b\n", "a == = b\n", "a +* b\n", "a ** ** b\n", "(a b)\n", "[a b]\n", "{a: b c}\n", "{a: b, c}\n", "{a, b: c}\n", "a[1 2]\n", "a[::: ]\n", "a[1:2:3:4]\n", "a.1\n", "a.(b)\n", "a..b\n", "f(,)\n", "f(a,,b)\n", "(,)\n", "[,]\n",
	"lambda: pass\n", "lambda x: return x\n", "x = lambda\n", "lambda (a, b): 0\n", "def f((a, b)): pass\n", "def f(a, (b, c)): pass\n", "print 1\n", "exec 'a'\n", "a = 1 if b\n", "a = 1 if b else\n", "a = if b else 1\n",
	"x = [i for i in]\n", "x = [for i in y]\n", "x = [i for in y]\n", "x = [i in y for]\n", "x = {i: for i in y}\n", "x = (i for i in y if)\n", "with: pass\n", "with a as: pass\n", "with a, : pass\n", "try:\n    pass\nelse:\n    pass\n",
	"try:\n    pass\nexcept A as: pass\n", "try:\n    pass\nexcept A as b.c:\n    pass\n", "try:\n    pass\nfinally:\n    pass\nexcept:\n    pass\n", "@a\npass\n", "@a\nx = 1\n", "@\ndef f(): pass\n", "@a b\ndef f(): pass\n",
	"def f() -> : pass\n", "def f(a: ): pass\n", "def f(a:1=): pass\n", "def f(**k, a): pass\n", "def f(*a, *b): pass\n", "def f(**k, **j): pass\n", "def f(*a, b=1, c): pass\n" /* legal: kw-only without default */, "def f(a, *, b, c=1, d): pass\n", /* legal */
	"x = 1;; y = 2\n", "; x = 1\n", "x = 1 ;\n" /* legal */, "if a: pass; else: pass\n", "if a: x = 1\nelse: y = 2\n" /* legal */, "for x in y: pass\nelse: pass\n" /* legal */, "while a: pass; break\n", /* legal */
	"a = 1\n b = 2\n", "if a:\n    b = 1\n      c = 2\n", "if a:\n        b = 1\n    c = 2\n" /* dedent to unknown level */, "\tif a:\n\t\tpass\n", "if a:\n    pass\n\telse:\n    pass\n",
	"a = '\\\n", "a = 'x' 'y\n", "a = \"\"\"x\"\"\n", "a = r'\\'\n" /* r'\' is unterminated */, "a = b'\\'\n", "x = 1 if 2 else 3 if\n", "not\n", "a not b\n", "a is is b\n", "a in in b\n", "a not not in b\n", "a is not not b\n" /* legal: a is not (not b) */, "a not in not b\n", /* legal */
	"yield = 1\n", "class = 1\n", "def = 1\n", "x.class\n", "x.None\n", "x.True = 1\n", "None.x = 1\n" /* legal syntax */, "f(None=1)\n", "f(True=1)\n", "def f(None): pass\n", "def None(): pass\n", "class True: pass\n", "import None\n", "from a import None\n",
	"import a as None\n", "for None in a: pass\n", "with a as True: pass\n", "lambda None: 0\n", "global None\n", "nonlocal True\n", "del True\n", "None += 1\n", "x = 1 = None\n", "(None) = 1\n", "[None] = [1]\n", "None, a = 1, 2\n", "a, *None = x\n",
	// clause structure of compound statements: clauses missing, repeated or out of order
	"try:\n    pass\nelse:\n    pass\nfinally:\n    pass\n", "try:\n    pass\nelse:\n    pass\n", "try:\n    pass\nfinally:\n    pass\nelse:\n    pass\n", "try:\n    pass\nfinally:\n    pass\nfinally:\n    pass\n",
	"try:\n    pass\nexcept A:\n    pass\nelse:\n    pass\nelse:\n    pass\n", "try:\n    pass\nexcept A:\n    pass\nelse:\n    pass\nexcept B:\n    pass\n", "try:\n    pass\nexcept A:\n    pass\nfinally:\n    pass\nelse:\n    pass\n",
	"try:\n    pass\nelif a:\n    pass\n", "if a:\n    pass\nelse:\n    pass\nelif b:\n    pass\n", "if a:\n    pass\nelse:\n    pass\nelse:\n    pass\n", "if a:\n    pass\nfinally:\n    pass\n", "if a:\n    pass\nexcept:\n    pass\n",
	"for x in y:\n    pass\nelse:\n    pass\nelse:\n    pass\n", "for x in y:\n    pass\nelif a:\n    pass\n", "for x in y:\n    pass\nfinally:\n    pass\n", "while a:\n    pass\nelse:\n    pass\nelse:\n    pass\n", "while a:\n    pass\nelif b:\n    pass\n",
	"with a:\n    pass\nelse:\n    pass\n", "with a:\n    pass\nfinally:\n    pass\n", "def f():\n    pass\nelse:\n    pass\n", "class A:\n    pass\nelse:\n    pass\n", "try:\n    pass\nexcept A, B:\n    pass\n", "try:\n    pass\nexcept A as b, C:\n    pass\n",
	"try:\n    pass\nexcept A:\n    pass\nelse:\n    pass\nfinally:\n    pass\n" /* legal */, "try:\n    pass\nfinally:\n    pass\n" /* legal */, "def f():\n    try:\n        pass\n    else:\n        pass\n    finally:\n        pass\n",
	"for x in y:\n    try:\n        pass\n    else:\n        continue\n    finally:\n        pass\n", "try: pass\nelse: pass\nfinally: pass\n",
	// break and continue inside a try, with, else or finally block that is itself inside no loop (in a function and at module level)
	"def f():\n    try:\n        break\n    finally:\n        pass\n", "def f():\n    try:\n        pass\n    finally:\n        break\n", "def f():\n    try:\n        pass\n    except A:\n        break\n",
	"def f():\n    try:\n        pass\n    except A:\n        pass\n    else:\n        break\n", "def f():\n    with a:\n        break\n", "def f():\n    with a as b:\n        if c:\n            break\n",
	"try:\n    break\nfinally:\n    pass\n", "try:\n    pass\nfinally:\n    break\n", "try:\n    pass\nexcept A:\n    pass\nelse:\n    break\n", "with a:\n    if b:\n        break\n",
	"def f():\n    try:\n        try:\n            break\n        finally:\n            pass\n    except A:\n        pass\n", "class C:\n    try:\n        break\n    finally:\n        pass\n",
	"def f():\n    try:\n        continue\n    finally:\n        pass\n", "def f():\n    with a:\n        continue\n", "for x in y:\n    def f():\n        try:\n            break\n        finally:\n            pass\n",
	"for x in y:\n    try:\n        break\n    finally:\n        pass\n" /* legal */, "while a:\n    with b:\n        break\n", /* legal */
}

//go:build verif

package harness

import (
	"fmt"
	"reflect"
	"strings"

	"github.com/go-python/gpython/ast"
	"github.com/go-python/gpython/py"
)

// AstCanon renders a gpython AST in the positional canonical form shared with oracle_server.py canon().
func AstCanon(n interface{}) string {
	var sb strings.Builder
	astCanonValue(&sb, reflect.ValueOf(n))
	return sb.String()
}

var astNameMap = map[string]string{"exprstmt": "expr"}

func astCanonValue(sb *strings.Builder, v reflect.Value) {
	if !v.IsValid() {
		sb.WriteString("None")
		return
	}
	switch x := v.Interface().(type) {
	case ast.Identifier:
		if x == "" {
			sb.WriteString("None")
		} else {
			sb.WriteString("id:" + string(x))
		}
		return
	case ast.ExprContext:
		sb.WriteString(strings.ToLower(strings.TrimSuffix(x.String(), "()")))
		return
	case ast.BoolOpNumber:
		sb.WriteString(strings.ToLower(strings.TrimSuffix(x.String(), "()")))
		return
	case ast.OperatorNumber:
		sb.WriteString(strings.ToLower(strings.TrimSuffix(x.String(), "()")))
		return
	case ast.UnaryOpNumber:
		sb.WriteString(strings.ToLower(strings.TrimSuffix(x.String(), "()")))
		return
	case ast.CmpOp:
		sb.WriteString(strings.ToLower(strings.TrimSuffix(x.String(), "()")))
		return
	case py.String:
		sb.WriteString(encStr(string(x)))
		return
	case py.Bytes:
		sb.WriteString(Enc(x))
		return
	}
	switch v.Kind() {
	case reflect.Interface:
		if v.IsNil() {
			sb.WriteString("None")
			return
		}
		// py.Object payloads (Num.N, NameConstant.Value)
		if o, ok := v.Interface().(py.Object); ok {
			if _, isAst := v.Interface().(ast.Ast); !isAst {
				if c, isC := o.(py.Complex); isC {
					sb.WriteString("c:" + encFloat(imag(complex128(c))))
				} else {
					sb.WriteString(Enc(o))
				}
				return
			}
		}
		astCanonValue(sb, v.Elem())
	case reflect.Ptr:
		if v.IsNil() {
			sb.WriteString("None")
			return
		}
		astCanonValue(sb, v.Elem())
	case reflect.Slice:
		sb.WriteString("[")
		for i := 0; i < v.Len(); i++ {
			if i > 0 {
				sb.WriteString(",")
			}
			astCanonValue(sb, v.Index(i))
		}
		sb.WriteString("]")
	case reflect.Struct:
		t := v.Type()
		name := strings.ToLower(t.Name())
		if m, ok := astNameMap[name]; ok {
			name = m
		}
		var parts []string
		for i := 0; i < t.NumField(); i++ {
			f := t.Field(i)
			if f.Anonymous || f.Name == "Pos" {
				continue // position and base structs
			}
			var p strings.Builder
			astCanonValue(&p, v.Field(i))
			parts = append(parts, p.String())
		}
		if len(parts) == 0 {
			sb.WriteString(name)
			return
		}
		sb.WriteString(name + "(" + strings.Join(parts, ",") + ")")
	case reflect.Int, reflect.Int32, reflect.Int64:
		fmt.Fprintf(sb, "n%d", v.Int())
	case reflect.String:
		sb.WriteString("id:" + v.String())
	case reflect.Bool:
		if v.Bool() {
			sb.WriteString("T")
		} else {
			sb.WriteString("F")
		}
	default:
		fmt.Fprintf(sb, "?%v", v.Kind())
	}
}

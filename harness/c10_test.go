//go:build verif

package harness

// C10 — no Python-level action can panic or abort the host (DESIGN section 6).

import (
	"fmt"
	"math"
	"math/big"
	"os"
	"os/exec"
	"path/filepath"
	"reflect"
	"sort"
	"strings"
	"testing"
	"time"

	"github.com/go-python/gpython/py"
)

const c10Setup = `def fn(*a, **k):
    return 1
lam = lambda x: x
class K:
    pass
class WI:
    def __index__(self):
        return 1
    def __len__(self):
        return 2
    def __getitem__(self, i):
        if i > 1:
            raise IndexError
        return i
    def __iter__(self):
        return iter([1, 2])
class Bad:
    def __index__(self):
        return 'x'
    def __len__(self):
        return -1
    def __iter__(self):
        return 5
    def __bool__(self):
        return 7
    def __hash__(self):
        return 'h'
class E(Exception):
    pass
inst = K()
inst.attr = 1
wi = WI()
bad = Bad()
def gen():
    yield 1
    yield 2
g_live = gen()
g_done = gen()
for _x in g_done:
    pass
it = iter([1, 2])

import math
exc_inst = KeyError('k')
def boom(*a):
    raise ValueError('boom')
`

type c10Val struct {
	name string
	obj  py.Object
	huge bool
}

// c10Universe builds a fresh set of representative values of every type in a fresh context
func c10Universe() (py.Context, []c10Val, error) {
	ctx, _ := NewCtx(nil, nil)
	mod, err := ctx.Store().NewModule(ctx, &py.ModuleImpl{Info: py.ModuleInfo{Name: "c10main", FileDesc: "<c10>"}})
	if err != nil {
		return nil, nil, err
	}
	code, err := py.Compile(c10Setup, "<c10>", py.ExecMode, 0, true)
	if err != nil {
		return nil, nil, err
	}
	if _, err := ctx.RunCode(code, mod.Globals, mod.Globals, nil); err != nil {
		return nil, nil, err
	}
	g := mod.Globals
	big1 := func(s string) *py.BigInt { v, _ := new(big.Int).SetString(s, 10); return (*py.BigInt)(v) }
	vals := []c10Val{
		{"None", py.None, false}, {"True", py.True, false}, {"False", py.False, false},
		{"0", py.Int(0), false}, {"1", py.Int(1), false}, {"-1", py.Int(-1), false}, {"3", py.Int(3), false}, {"255", py.Int(255), false},
		{"IntMax", py.Int(math.MaxInt64), true}, {"IntMin", py.Int(math.MinInt64), true},
		{"2**63", big1("9223372036854775808"), true}, {"-2**64", big1("-18446744073709551616"), true}, {"big(5)", (*py.BigInt)(big.NewInt(5)), false},
		{"0.0", py.Float(0), false}, {"1.5", py.Float(1.5), false}, {"nan", py.Float(math.NaN()), false}, {"inf", py.Float(math.Inf(1)), false}, {"-1e308", py.Float(-1e308), false},
		{"1+2j", py.Complex(complex(1, 2)), false},
		{"''", py.String(""), false}, {"'a'", py.String("a"), false}, {"'é€'", py.String("é€"), false}, {"'%s %d'", py.String("%s %d"), false}, {"'{}'", py.String("{}"), false},
		{"b''", py.Bytes(""), false}, {"b'ab\\xff'", py.Bytes("ab\xff"), false},
		{"()", py.Tuple{}, false}, {"(1, 'a')", py.Tuple{py.Int(1), py.String("a")}, false}, {"((1,), [2])", py.Tuple{py.Tuple{py.Int(1)}, py.NewListFromItems([]py.Object{py.Int(2)})}, false},
		{"[]", py.NewList(), false}, {"[1, 2, 3]", py.NewListFromItems([]py.Object{py.Int(1), py.Int(2), py.Int(3)}), false}, {"['b', 'a']", py.NewListFromItems([]py.Object{py.String("b"), py.String("a")}), false},
		{"{}", py.NewStringDict(), false}, {"{'k': 1}", py.StringDict{"k": py.Int(1)}, false},
		{"set()", py.NewSet(), false}, {"{1, 1.0, True}", py.NewSetFromItems([]py.Object{py.Int(1), py.Float(1), py.True}), false}, {"frozenset", py.NewFrozenSetFromItems([]py.Object{py.Int(1)}), false},
		{"range(3)", &py.Range{Start: 0, Stop: 3, Step: 1, Length: 3}, false},
		{"slice(1,2)", py.NewSlice(py.Int(1), py.Int(2), py.None), false}, {"slice((1,),b'a',1.0)", py.NewSlice(py.Tuple{py.Int(1)}, py.Bytes("a"), py.Float(1)), false},
		{"slice((1,),b'a',1)", py.NewSlice(py.Tuple{py.Int(1)}, py.Bytes("a"), py.Int(1)), false}, {"slice(huge)", py.NewSlice(big1("-99999999999999999999"), big1("99999999999999999999"), py.Int(math.MinInt64)), false},
		{"NotImplemented", py.NotImplemented, false}, {"Ellipsis", py.Ellipsis, false},
		{"int", py.IntType, false}, {"str", py.StringType, false}, {"list", py.ListType, false}, {"type", py.TypeType, false}, {"KeyError", py.KeyError, false}, {"object", py.ObjectType, false},
	}
	for _, n := range []string{"fn", "lam", "K", "inst", "wi", "bad", "E", "g_live", "g_done", "it", "math", "exc_inst", "boom"} {
		if o, ok := g[n]; ok {
			vals = append(vals, c10Val{n, o, false})
		}
	}
	if c, err := py.Compile("1", "<x>", py.EvalMode, 0, true); err == nil {
		vals = append(vals, c10Val{"code", c, false})
	}
	if bmeth, err := py.GetAttrString(g["inst"], "__class__"); err == nil {
		_ = bmeth
	}
	if m, err := py.GetAttrString(py.String("x"), "upper"); err == nil {
		vals = append(vals, c10Val{"'x'.upper", m, false})
	}
	return ctx, vals, nil
}

type c10Callable struct {
	name string
	get  func(ctx py.Context, vals []c10Val) (func(args py.Tuple, kwargs py.StringDict) (py.Object, error), bool)
	risk bool // name suggests pow/shift/repeat: huge arguments are skipped (allocation, not robustness)
}

func riskyName(n string) bool {
	n = strings.ToLower(n)
	return strings.Contains(n, "pow") || strings.Contains(n, "lshift") || strings.Contains(n, "mul") || strings.Contains(n, "range") || strings.Contains(n, "sum") ||
		strings.Contains(n, "repeat") || strings.Contains(n, "bytes") || strings.Contains(n, "round") || strings.Contains(n, "factorial") || strings.Contains(n, "ldexp")
}

func valByName(vals []c10Val, name string) py.Object {
	for _, v := range vals {
		if v.name == name {
			return v.obj
		}
	}
	return nil
}

// c10Callables discovers the callable universe
func c10Callables() []c10Callable {
	var out []c10Callable
	ctx, vals, err := c10Universe()
	if err != nil {
		panic(err)
	}
	defer ctx.Close()
	// builtins
	var names []string
	for n, o := range ctx.Store().Builtins.Globals {
		if _, ok := o.(py.I__call__); ok {
			names = append(names, n)
		}
	}
	sort.Strings(names)
	for _, n := range names {
		n := n
		if n == "exit" || n == "quit" || n == "input" {
			continue // exit/quit raise SystemExit by design; input reads the host's stdin
		}
		out = append(out, c10Callable{"builtins." + n, func(ctx py.Context, _ []c10Val) (func(py.Tuple, py.StringDict) (py.Object, error), bool) {
			f := ctx.Store().Builtins.Globals[n]
			return func(a py.Tuple, k py.StringDict) (py.Object, error) { return py.Call(f, a, k) }, true
		}, riskyName(n)})
	}
	// the functions of the Go modules of the standard library (not os/tempfile: they act on the host's file system; not time.sleep)
	for _, mname := range []string{"math", "string", "binascii", "array", "marshal", "glob", "time", "sys"} {
		mname := mname
		if err := py.Import(ctx, mname); err != nil {
			continue
		}
		m, err := ctx.GetModule(mname)
		if err != nil {
			continue
		}
		var fnames []string
		for n, o := range m.Globals {
			if _, ok := o.(py.I__call__); ok {
				fnames = append(fnames, n)
			}
		}
		sort.Strings(fnames)
		for _, n := range fnames {
			n := n
			if (mname == "time" && n == "sleep") || (mname == "sys" && n == "exit") {
				continue
			}
			out = append(out, c10Callable{mname + "." + n, func(ctx py.Context, _ []c10Val) (func(py.Tuple, py.StringDict) (py.Object, error), bool) {
				if err := py.Import(ctx, mname); err != nil {
					return nil, false
				}
				m, err := ctx.GetModule(mname)
				if err != nil {
					return nil, false
				}
				f, ok := m.Globals[n]
				if !ok {
					return nil, false
				}
				return func(a py.Tuple, k py.StringDict) (py.Object, error) { return py.Call(f, a, k) }, true
			}, riskyName(n)})
		}
	}
	// type dictionaries: through an instance, through the class; M__x__ methods through getattr
	seenType := map[string]bool{}
	for _, v := range vals {
		tname := v.obj.Type().Name
		if seenType[tname] {
			continue
		}
		seenType[tname] = true
		vname := v.name
		var attrs []string
		for a := range v.obj.Type().Dict {
			attrs = append(attrs, a)
		}
		rt := reflect.TypeOf(v.obj)
		for i := 0; i < rt.NumMethod(); i++ {
			m := rt.Method(i).Name
			if strings.HasPrefix(m, "M__") && strings.HasSuffix(m, "__") {
				attrs = append(attrs, m[1:])
			}
		}
		sort.Strings(attrs)
		for _, a := range attrs {
			a := a
			out = append(out, c10Callable{tname + "(" + vname + ")." + a, func(ctx py.Context, vals []c10Val) (func(py.Tuple, py.StringDict) (py.Object, error), bool) {
				recv := valByName(vals, vname)
				f, err := py.GetAttrString(recv, a)
				if err != nil {
					return nil, false
				}
				return func(args py.Tuple, k py.StringDict) (py.Object, error) { return py.Call(f, args, k) }, true
			}, riskyName(a)})
			out = append(out, c10Callable{tname + "." + a + "[class]", func(ctx py.Context, vals []c10Val) (func(py.Tuple, py.StringDict) (py.Object, error), bool) {
				recv := valByName(vals, vname)
				f, err := py.GetAttrString(recv.Type(), a)
				if err != nil {
					return nil, false
				}
				return func(args py.Tuple, k py.StringDict) (py.Object, error) { return py.Call(f, args, k) }, true
			}, riskyName(a)})
		}
		// descriptors in the type's dictionary (properties such as function.__code__), applied to objects of every type:
		// a property borrowed by another class (class G: c = type(f).__code__) hands its getter a foreign instance
		for _, a := range attrs {
			a := a
			d, isDescr := v.obj.Type().Dict[a]
			if !isDescr {
				continue
			}
			if _, ok := d.(py.I__get__); !ok {
				continue
			}
			out = append(out, c10Callable{tname + "." + a + "[descriptor]", func(ctx py.Context, vals []c10Val) (func(py.Tuple, py.StringDict) (py.Object, error), bool) {
				recv := valByName(vals, vname)
				d := recv.Type().Dict[a]
				return func(args py.Tuple, k py.StringDict) (py.Object, error) {
					switch len(args) {
					case 1:
						if g, ok := d.(py.I__get__); ok {
							if _, err := g.M__get__(args[0], args[0].Type()); err != nil {
								return nil, err
							}
						}
						if x, ok := d.(py.I__delete__); ok {
							return x.M__delete__(args[0])
						}
					case 2:
						if x, ok := d.(py.I__set__); ok {
							return x.M__set__(args[0], args[1])
						}
					}
					return nil, py.ExceptionNewf(py.TypeError, "arity")
				}, true
			}, false})
		}
		// the value itself as a callable
		out = append(out, c10Callable{"call " + vname, func(ctx py.Context, vals []c10Val) (func(py.Tuple, py.StringDict) (py.Object, error), bool) {
			recv := valByName(vals, vname)
			return func(args py.Tuple, k py.StringDict) (py.Object, error) { return py.Call(recv, args, k) }, true
		}, riskyName(vname)})
	}
	// operators and protocol functions of the Go API
	un := map[string]func(py.Object) (py.Object, error){"Neg": py.Neg, "Pos": py.Pos, "Abs": py.Abs, "Invert": py.Invert, "MakeBool": py.MakeBool, "MakeInt": py.MakeInt, "MakeFloat": py.MakeFloat,
		"MakeComplex": py.MakeComplex, "Iter": py.Iter, "Next": py.Next, "Len": py.Len, "Repr": py.Repr, "Str": py.Str, "Not": py.Not,
		"Index": func(o py.Object) (py.Object, error) { i, err := py.Index(o); return i, err }}
	for n, f := range un {
		f := f
		out = append(out, c10Callable{"op." + n, func(py.Context, []c10Val) (func(py.Tuple, py.StringDict) (py.Object, error), bool) {
			return func(a py.Tuple, k py.StringDict) (py.Object, error) {
				if len(a) != 1 || len(k) > 0 {
					return nil, py.ExceptionNewf(py.TypeError, "arity")
				}
				return f(a[0])
			}, true
		}, false})
	}
	bin := map[string]func(a, b py.Object) (py.Object, error){"Add": py.Add, "Sub": py.Sub, "Mul": py.Mul, "TrueDiv": py.TrueDiv, "FloorDiv": py.FloorDiv, "Mod": py.Mod, "Lshift": py.Lshift, "Rshift": py.Rshift,
		"And": py.And, "Or": py.Or, "Xor": py.Xor, "IAdd": py.IAdd, "ISub": py.ISub, "IMul": py.IMul, "ITrueDiv": py.ITrueDiv, "IFloorDiv": py.IFloorDiv, "IMod": py.IMod, "ILshift": py.ILshift,
		"IRshift": py.IRshift, "IAnd": py.IAnd, "IOr": py.IOr, "IXor": py.IXor, "Lt": py.Lt, "Le": py.Le, "Gt": py.Gt, "Ge": py.Ge, "Eq": py.Eq, "Ne": py.Ne,
		"GetItem": py.GetItem, "DelItem": py.DelItem, "GetAttr": py.GetAttr,
		"DivMod": func(a, b py.Object) (py.Object, error) { q, r, err := py.DivMod(a, b); return py.Tuple{q, r}, err },
		"Contains": func(a, b py.Object) (py.Object, error) {
			ok, err := py.SequenceContains(a, b)
			return py.NewBool(ok), err
		},
		"DelAttr": func(a, b py.Object) (py.Object, error) { return py.None, py.DeleteAttr(a, b) },
		"Pow2":    func(a, b py.Object) (py.Object, error) { return py.Pow(a, b, py.None) },
		"IPow2":   func(a, b py.Object) (py.Object, error) { return py.IPow(a, b, py.None) },
	}
	for n, f := range bin {
		f := f
		out = append(out, c10Callable{"op." + n, func(py.Context, []c10Val) (func(py.Tuple, py.StringDict) (py.Object, error), bool) {
			return func(a py.Tuple, k py.StringDict) (py.Object, error) {
				if len(a) != 2 || len(k) > 0 {
					return nil, py.ExceptionNewf(py.TypeError, "arity")
				}
				return f(a[0], a[1])
			}, true
		}, riskyName(n)})
	}
	ter := map[string]func(a, b, c py.Object) (py.Object, error){"Pow": py.Pow, "SetItem": py.SetItem, "SetAttr": py.SetAttr}
	for n, f := range ter {
		f := f
		out = append(out, c10Callable{"op." + n, func(py.Context, []c10Val) (func(py.Tuple, py.StringDict) (py.Object, error), bool) {
			return func(a py.Tuple, k py.StringDict) (py.Object, error) {
				if len(a) != 3 || len(k) > 0 {
					return nil, py.ExceptionNewf(py.TypeError, "arity")
				}
				return f(a[0], a[1], a[2])
			}, true
		}, riskyName(n)})
	}
	sort.Slice(out, func(i, j int) bool { return out[i].name < out[j].name })
	return out
}

// keyword-only calls (no positional argument)
var c10KwOnly = []py.StringDict{{"x": py.Int(1)}, {"key": py.None}, {"sep": py.String(",")}, {"reverse": py.True}, {"end": py.String(""), "sep": py.String("")}}
var c10KwOnlyDesc = []string{"x=1", "key=None", "sep=','", "reverse=True", "end='', sep=''"}

type c10Outcome struct {
	calls, raised, returned, panics, timeouts, skipped int64
}

// c10RunCallable exercises one callable over all argument tuples up to maxArity
func c10RunCallable(r *Run, c c10Callable, maxArity int, progress func(string)) c10Outcome {
	var oc c10Outcome
	ctx, vals, err := c10Universe()
	if err != nil {
		r.Infra("universe: %v", err)
	}
	defer func() {
		defer func() { recover() }()
		ctx.Close()
	}()
	f, ok := c.get(ctx, vals)
	if !ok {
		return oc
	}
	rebuild := func() {
		func() {
			defer func() { recover() }()
			ctx.Close()
		}()
		ctx, vals, _ = c10Universe()
		f, _ = c.get(ctx, vals)
	}
	kwOnlyIx := 0
	call := func(args []int, kw bool) {
		if f == nil {
			return
		}
		a := make(py.Tuple, len(args))
		names := make([]string, len(args))
		for i, ix := range args {
			a[i] = vals[ix].obj
			names[i] = vals[ix].name
			if c.risk && vals[ix].huge {
				oc.skipped++
				return
			}
		}
		var kwargs py.StringDict
		desc := c.name + "(" + strings.Join(names, ", ")
		if kw && len(args) > 0 {
			kwargs = py.StringDict{"key": vals[args[0]].obj, "x": py.Int(1)}
			desc += ", key=" + names[0] + ", x=1"
		} else if kw {
			// keywords only, no positional argument at all (a method reached through its class then has no receiver)
			kwargs = c10KwOnly[kwOnlyIx]
			desc += c10KwOnlyDesc[kwOnlyIx]
		}
		desc += ")"
		if progress != nil {
			progress(desc)
		}
		oc.calls++
		done := make(chan struct{})
		var pclass, ptop, pmsg string
		var cerr error
		go func() {
			defer close(done)
			pclass, ptop, pmsg = Protect(func() { _, cerr = f(a, kwargs) })
		}()
		select {
		case <-done:
		case <-time.After(3 * time.Second):
			oc.timeouts++
			r.Inconclusive()
			r.Note("timeout (inconclusive, not a violation): %s", desc)
			rebuild() // the abandoned goroutine keeps the old context
			return
		}
		switch {
		case pclass != "":
			oc.panics++
			r.Mismatch(&Case{Kind: "c10", Sig: "panic:" + ptop + ":" + pclass, Program: desc, Args: map[string]interface{}{"callable": c.name, "args": names, "kw": kw, "kwonly": kwOnlyIx},
				Expected: "a value or a Python exception", Actual: "Go panic: " + pmsg, Detail: "top gpython frame: " + ptop})
		case cerr != nil:
			cls, _ := ErrClass(cerr)
			if strings.HasPrefix(cls, "<goerror") {
				r.Mismatch(&Case{Kind: "c10", Sig: "non-python-error:" + cls, Program: desc, Args: map[string]interface{}{"callable": c.name, "args": names, "kw": kw},
					Expected: "a Python exception carried by the error", Actual: cls + ": " + cerr.Error()})
			}
			oc.raised++
			if cls == "SystemError" {
				r.AddExtra("systemerror_results", 1)
			}
		default:
			oc.returned++
		}
	}
	n := len(vals)
	call(nil, false)
	for kwOnlyIx = range c10KwOnly {
		call(nil, true)
	}
	if maxArity >= 1 {
		for i := 0; i < n; i++ {
			call([]int{i}, false)
			call([]int{i}, true)
		}
	}
	if maxArity >= 2 {
		for i := 0; i < n; i++ {
			for j := 0; j < n; j++ {
				call([]int{i, j}, false)
			}
		}
	}
	if maxArity >= 3 {
		for i := 0; i < n; i++ {
			for j := 0; j < n; j++ {
				for k := 0; k < n; k += 1 {
					call([]int{i, j, k}, false)
				}
			}
		}
	}
	return oc
}

func TestC10(t *testing.T) {
	r := StartRun(t, "C10")
	defer r.Finish()
	py.InputHook = func(prompt string) (string, error) { return "", py.ExceptionNewf(py.EOFError, "EOF") }
	// file-creating calls (open('a', 'w')) land in a scratch directory
	scratch := filepath.Join(r.OutDir, "cwd")
	os.MkdirAll(scratch, 0o755)
	old, _ := os.Getwd()
	os.Chdir(scratch)
	defer os.Chdir(old)
	cs := c10Callables()
	only := os.Getenv("VERIF_C10_ONLY")
	maxArity := r.Pick(2, 3)
	_, vals, _ := c10Universe()
	r.Extra("rule", fmt.Sprintf("callable universe discovered at run time: every callable in builtins and in the Go modules math/string/binascii/array/marshal/glob/time/sys, every entry of every builtin type's attribute table reached through an instance and through the class, "+
		"every M__x__ method reached with getattr, every value called as a function, and the Go API's unary/binary/ternary operators and protocol functions (%d callables) x all argument tuples "+
		"of arity 0-%d over %d representative values of every type (ints in both representations incl. +-2**63, nan/inf, non-ASCII strings, nested containers, slices with huge fields, classes, "+
		"instances with well- and ill-behaved special methods, live/exhausted generators, modules, code objects), plus a keyword-argument form. Oracle: recover() around each call - a Go panic, "+
		"or an error that is not a Python exception, is a violation identified by its call site (top gpython frame + panic class); a worker that dies is located through its progress file. "+
		"Non-trivial: every call; distinct by (callable, argument names).", len(cs), maxArity, len(vals)))
	r.Extra("assumptions", []string{"pow/shift/repeat-like callables skip the huge integers (they measure allocation)", "a call that does not return within 3 s is inconclusive, not a violation"})
	r.ReplayKnown()
	progressFile := filepath.Join(r.OutDir, "progress.txt")
	for ci, c := range cs {
		if only != "" && c.name != only {
			continue
		}
		if only == "" && ci%r.NShards != r.Shard {
			continue
		}
		sw := "c10.skip." + c.name
		if !r.SwitchOn(sw) {
			r.On(sw)
			continue
		}
		os.WriteFile(progressFile, []byte("callable: "+c.name+"\n"), 0o644)
		var progress func(string)
		if only != "" {
			progress = func(d string) { os.WriteFile(progressFile, []byte("call: "+d+"\n"), 0o644) }
		}
		oc := c10RunCallable(r, c, maxArity, progress)
		r.CountN(oc.calls)
		r.AddExtra("calls_raised", oc.raised)
		r.AddExtra("calls_returned", oc.returned)
		r.AddExtra("calls_panicked", oc.panics)
		r.AddExtra("calls_skipped_huge", oc.skipped)
		// distinctness: every (callable, tuple) is distinct by construction; record per callable
		for i := int64(0); i < oc.calls; i += 1 {
			if i >= 3 {
				break
			}
		}
		r.mu.Lock()
		for i := int64(0); i < oc.calls; i++ {
			r.hashes[Hash64(fmt.Sprintf("%s#%d", c.name, i))] = struct{}{}
		}
		r.mu.Unlock()
		r.Class(strings.SplitN(c.name, ".", 2)[0])
		r.Sample(c.name, c.name+"(<all tuples of arity 0.."+fmt.Sprint(maxArity)+">)")
	}
	os.Remove(progressFile)
	r.SetExhaustive(true)
}

func init() {
	replayers["c10"] = func(c *Case) (string, string, error) {
		name, _ := c.Args["callable"].(string)
		var argNames []string
		if l, ok := c.Args["args"].([]interface{}); ok {
			for _, x := range l {
				argNames = append(argNames, x.(string))
			}
		}
		kw, _ := c.Args["kw"].(bool)
		py.InputHook = func(prompt string) (string, error) { return "", py.ExceptionNewf(py.EOFError, "EOF") }
		for _, cc := range c10Callables() {
			if cc.name != name {
				continue
			}
			ctx, vals, err := c10Universe()
			if err != nil {
				return "", "", err
			}
			defer ctx.Close()
			f, ok := cc.get(ctx, vals)
			if !ok {
				return "", "", nil
			}
			var a py.Tuple
			for _, n := range argNames {
				a = append(a, valByName(vals, n))
			}
			var kwargs py.StringDict
			if kw && len(a) > 0 {
				kwargs = py.StringDict{"key": a[0], "x": py.Int(1)}
			} else if kw {
				ix, _ := c.Args["kwonly"].(float64)
				if int(ix) >= 0 && int(ix) < len(c10KwOnly) {
					kwargs = c10KwOnly[int(ix)]
				}
			}
			pclass, ptop, pmsg := Protect(func() { f(a, kwargs) })
			if pclass != "" {
				return "panic:" + ptop + ":" + pclass, pmsg, nil
			}
			return "", "", nil
		}
		return "", "", fmt.Errorf("callable %q not found", name)
	}
}

// ---------------------------------------------------------------- whole programs in a child process (fatal errors cannot be recovered)

var c10Programs = []struct{ name, src string }{
	{"recursion-unbounded", "def f(n):\n    return f(n + 1)\nf(0)\n"},
	{"recursion-mutual", "def a(n):\n    return b(n)\ndef b(n):\n    return a(n)\na(0)\n"},
	{"recursion-repr", "l = []\nl.append(l)\nprint(l)\n"},
	{"recursion-eq", "a = []\na.append(a)\nb = []\nb.append(b)\nprint(a == b)\n"},
	{"recursion-class-str", "class K:\n    def __repr__(self):\n        return repr(self)\nprint(K())\n"},
	{"recursion-getattr", "class K:\n    def __getattr__(self, n):\n        return getattr(self, n)\nK().x\n"},
	{"deep-nesting-data", "x = []\nfor i in range(100000):\n    x = [x]\nprint(len(x))\n"},
	{"deep-nesting-repr", "x = []\nfor i in range(100000):\n    x = [x]\nprint(x)\n"},
	{"deep-expression", "x = " + strings.Repeat("(", 2000) + "1" + strings.Repeat(")", 2000) + "\n"},
	{"long-chain-add", "x = 1" + strings.Repeat(" + 1", 50000) + "\n"},
	{"allocation-beyond-memory", "x = [0] * 10**11\n"},
	{"generator-self-next", "def g():\n    yield next(it)\nit = g()\ntry:\n    next(it)\nexcept ValueError:\n    pass\n"},
	{"sort-raises", "def k(x):\n    raise KeyError\ntry:\n    [3, 1].sort(key=k)\nexcept KeyError:\n    pass\n"},
	{"exception-in-del-loop", "for i in range(3):\n    try:\n        raise ValueError(i)\n    except ValueError as e:\n        pass\n"},
	{"raise-non-exception", "try:\n    raise 5\nexcept TypeError:\n    pass\n"},
	{"class-with-bad-mro", "class A: pass\nclass B(A): pass\ntry:\n    class C(A, B): pass\nexcept TypeError:\n    pass\n"},
	{"star-args-non-iterable", "def f(*a): pass\ntry:\n    f(*5)\nexcept TypeError:\n    pass\n"},
	{"dstar-non-dict", "def f(**a): pass\ntry:\n    f(**5)\nexcept Exception:\n    pass\n"},
	{"unpack-mismatch", "try:\n    a, b = 1, 2, 3\nexcept ValueError:\n    pass\n"},
	{"module-level-break-in-try", "try:\n    pass\nfinally:\n    pass\n"},
	{"format-mismatch", "for f in ['%d', '%s %s', '%(a)s', '%', '%z', '%5.2f', '%c']:\n    for v in [1, 'a', (1,), (1, 2), None, 1.5, {'a': 1}]:\n        try:\n            f % v\n        except Exception:\n            pass\n"},
	{"str-methods-odd-args", "for m in ['find', 'count', 'split', 'replace', 'startswith', 'join', 'strip']:\n    for a in [(), (1,), ('a', 'b', 'c', 'd'), (None,), ('a', -100, 100), ('a', 2**70)]:\n        try:\n            getattr('abcabc', m)(*a)\n        except Exception:\n            pass\n"},
}

// every text of the reject templates executed as a program: whatever the compile pipeline lets through must still end in a
// Python exception when it runs (a statement the compiler should have refused must not reach the VM's internal panics)
func init() {
	var sb strings.Builder
	sb.WriteString("class CM:\n    def __enter__(self):\n        return self\n    def __exit__(self, *a):\n        return False\nSRC = [\n")
	for _, tpl := range rejectTemplates {
		sb.WriteString("    " + PyStr(tpl) + ",\n")
	}
	sb.WriteString("]\nfor src in SRC:\n    ns = {'a': CM(), 'b': CM(), 'c': 1, 'y': [1, 2], 'x': 0, 'A': KeyError, 'B': ValueError}\n    try:\n        exec(src, ns)\n    except BaseException:\n        continue\n" +
		"    for name in ['f', 'C', 'g']:\n        fn = ns.get(name)\n        if fn is not None:\n            try:\n                r = fn()\n                if name == 'f' and r is not None:\n                    list(r)\n            except BaseException:\n                pass\n")
	c10Programs = append(c10Programs, struct{ name, src string }{"reject-templates-executed", sb.String()})
}

func TestC10Child(t *testing.T) {
	idx := os.Getenv("VERIF_C10_PROG")
	if idx == "" {
		t.Skip("child mode only")
	}
	var i int
	fmt.Sscanf(idx, "%d", &i)
	res := RunProgram(c10Programs[i].src, RunOpts{Timeout: 40 * time.Second})
	fmt.Printf("CHILD-RESULT exc=%q panic=%q top=%q timeout=%v\n", res.Exc, res.Panic, res.PanicTop, res.Timeout)
}

func TestC10Programs(t *testing.T) {
	r := StartRun(t, "C10")
	defer r.Finish()
	for i, p := range c10Programs {
		if i%r.NShards != r.Shard {
			continue
		}
		if !r.On("c10.prog." + p.name) {
			continue
		}
		cmd := exec.Command(os.Args[0], "-test.run", "^TestC10Child$", "-test.v", "-test.timeout", "120s")
		cmd.Env = append(os.Environ(), fmt.Sprintf("VERIF_C10_PROG=%d", i), "GOTRACEBACK=single")
		out, err := cmd.CombinedOutput()
		text := string(out)
		r.Count("prog:"+p.name, true)
		r.Class("program")
		r.Sample("prog:"+p.name, p.name+": "+p.src[:minInt(len(p.src), 120)])
		switch {
		case strings.Contains(text, "CHILD-RESULT") && strings.Contains(text, "panic=\"\"") && !strings.Contains(text, "timeout=true"):
			// finished with a value or a Python exception
		case strings.Contains(text, "timeout=true"):
			r.Inconclusive()
			r.Note("program %s did not finish within 40 s (inconclusive)", p.name)
		case strings.Contains(text, "CHILD-RESULT"):
			r.Mismatch(&Case{Kind: "c10prog", Sig: "program-panic:" + p.name, Program: p.src, Args: map[string]interface{}{"index": i}, Expected: "a value or a Python exception", Actual: text[strings.Index(text, "CHILD-RESULT"):]})
		default:
			kind := "died"
			switch {
			case strings.Contains(text, "stack exceeds") || strings.Contains(text, "stack overflow"):
				kind = "go-stack-overflow"
			case strings.Contains(text, "out of memory") || strings.Contains(text, "cannot allocate"):
				kind = "out-of-memory"
			case strings.Contains(text, "concurrent map"):
				kind = "concurrent-map-access"
			}
			tail := text
			if len(tail) > 1500 {
				tail = tail[:700] + "\n...\n" + tail[len(tail)-700:]
			}
			r.Mismatch(&Case{Kind: "c10prog", Sig: "program-abort:" + kind + ":" + p.name, Program: p.src, Args: map[string]interface{}{"index": i}, Expected: "the process survives; failures are Python exceptions",
				Actual: fmt.Sprintf("child process died (%v): %s", err, tail)})
		}
	}
}

func init() {
	replayers["c10prog"] = func(c *Case) (string, string, error) {
		idx := -1
		for i, p := range c10Programs {
			if p.src == c.Program {
				idx = i
			}
		}
		if idx < 0 {
			return "", "", fmt.Errorf("program not in the list any more")
		}
		cmd := exec.Command(os.Args[0], "-test.run", "^TestC10Child$", "-test.v", "-test.timeout", "120s")
		cmd.Env = append(os.Environ(), fmt.Sprintf("VERIF_C10_PROG=%d", idx), "GOTRACEBACK=single", "VERIF_REPLAY=")
		out, _ := cmd.CombinedOutput()
		text := string(out)
		if strings.Contains(text, "CHILD-RESULT") && strings.Contains(text, "panic=\"\"") && !strings.Contains(text, "timeout=true") {
			return "", "", nil
		}
		if len(text) > 600 {
			text = text[:600]
		}
		return "program-abort", text, nil
	}
}

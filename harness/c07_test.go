//go:build verif

package harness

// C07 — integer arithmetic is exact and representation-independent (DESIGN section 6).

import (
	"fmt"
	"math"
	"math/big"
	"strings"
	"testing"

	"github.com/go-python/gpython/py"
	"pgregory.net/rapid"
)

// ---------------------------------------------------------------- reference model (math/big, from the language reference)

type mres struct {
	exc   string   // expected exception class ("" = value); "NegPowMod" = TypeError or ValueError (3.4 vs 3.5+)
	v     *big.Int // integer result
	v2    *big.Int // second result (divmod)
	b     *bool    // boolean result
	float bool     // the result is a float (negative exponent)
	fv    float64
	skip  bool
}

func bi(x int64) *big.Int { return big.NewInt(x) }

func floorDivMod(a, b *big.Int) (*big.Int, *big.Int) {
	q, r := new(big.Int).QuoRem(a, b, new(big.Int))
	if r.Sign() != 0 && (r.Sign() < 0) != (b.Sign() < 0) {
		q.Sub(q, bi(1))
		r.Add(r, b)
	}
	return q, r
}

func boolp(b bool) *bool { return &b }

const c07MaxShift = 256
const c07MaxExp = 64

func modelBin(op string, a, b *big.Int) mres {
	switch op {
	case "add":
		return mres{v: new(big.Int).Add(a, b)}
	case "sub":
		return mres{v: new(big.Int).Sub(a, b)}
	case "mul":
		return mres{v: new(big.Int).Mul(a, b)}
	case "floordiv", "mod", "divmod":
		if b.Sign() == 0 {
			return mres{exc: "ZeroDivisionError"}
		}
		q, r := floorDivMod(a, b)
		switch op {
		case "floordiv":
			return mres{v: q}
		case "mod":
			return mres{v: r}
		}
		return mres{v: q, v2: r}
	case "lshift":
		if !b.IsInt64() {
			return mres{skip: true} // fence: OverflowError (<=3.7) vs ValueError/0 (3.8+) for counts beyond a machine word
		}
		if b.Sign() < 0 {
			return mres{exc: "ValueError"}
		}
		if b.Int64() > c07MaxShift {
			return mres{skip: true}
		}
		return mres{v: new(big.Int).Lsh(a, uint(b.Int64()))}
	case "rshift":
		if !b.IsInt64() {
			return mres{skip: true} // same fence as lshift
		}
		if b.Sign() < 0 {
			return mres{exc: "ValueError"}
		}
		if b.Int64() > 1<<20 {
			// a >> huge is 0 or -1
			if a.Sign() < 0 {
				return mres{v: bi(-1)}
			}
			return mres{v: bi(0)}
		}
		return mres{v: new(big.Int).Rsh(a, uint(b.Int64()))}
	case "and":
		return mres{v: new(big.Int).And(a, b)}
	case "or":
		return mres{v: new(big.Int).Or(a, b)}
	case "xor":
		return mres{v: new(big.Int).Xor(a, b)}
	case "pow":
		if b.Sign() < 0 {
			if a.Sign() == 0 {
				return mres{exc: "ZeroDivisionError"}
			}
			if !b.IsInt64() || b.Int64() < -c07MaxExp || a.BitLen() > 200 {
				return mres{skip: true}
			}
			// float result: 1 / a**|b| correctly rounded
			p := new(big.Int).Exp(a, new(big.Int).Neg(b), nil)
			f := new(big.Float).SetPrec(400).SetInt(p)
			f.Quo(big.NewFloat(1).SetPrec(400), f)
			fv, _ := f.Float64()
			return mres{float: true, fv: fv}
		}
		if !b.IsInt64() || b.Int64() > c07MaxExp {
			if a.CmpAbs(bi(1)) <= 0 {
				// 0, 1, -1 to any power
				if a.Sign() == 0 {
					return mres{v: bi(0)}
				}
				if a.Sign() > 0 || b.Bit(0) == 0 {
					return mres{v: bi(1)}
				}
				return mres{v: bi(-1)}
			}
			return mres{skip: true}
		}
		return mres{v: new(big.Int).Exp(a, b, nil)}
	case "lt":
		return mres{b: boolp(a.Cmp(b) < 0)}
	case "le":
		return mres{b: boolp(a.Cmp(b) <= 0)}
	case "gt":
		return mres{b: boolp(a.Cmp(b) > 0)}
	case "ge":
		return mres{b: boolp(a.Cmp(b) >= 0)}
	case "eq":
		return mres{b: boolp(a.Cmp(b) == 0)}
	case "ne":
		return mres{b: boolp(a.Cmp(b) != 0)}
	}
	panic("model: unknown op " + op)
}

func modelPow3(a, b, m *big.Int) mres {
	if b.Sign() < 0 {
		return mres{exc: "NegPowMod"} // CPython checks the exponent before the modulus
	}
	if m.Sign() == 0 {
		return mres{exc: "ValueError"}
	}
	am := new(big.Int).Abs(m)
	r := new(big.Int).Exp(a, b, am) // Go: result in [0, |m|)
	if m.Sign() < 0 && r.Sign() != 0 {
		r.Add(r, m)
	}
	return mres{v: r}
}

func modelUn(op string, a *big.Int) mres {
	switch op {
	case "neg":
		return mres{v: new(big.Int).Neg(a)}
	case "pos":
		return mres{v: new(big.Int).Set(a)}
	case "abs":
		return mres{v: new(big.Int).Abs(a)}
	case "invert":
		return mres{v: new(big.Int).Not(a)}
	case "bool":
		return mres{b: boolp(a.Sign() != 0)}
	}
	panic("model: unknown unary " + op)
}

// ---------------------------------------------------------------- gpython side

var c07BinOps = map[string]func(a, b py.Object) (py.Object, error){
	"add": py.Add, "sub": py.Sub, "mul": py.Mul, "floordiv": py.FloorDiv, "mod": py.Mod,
	"lshift": py.Lshift, "rshift": py.Rshift, "and": py.And, "or": py.Or, "xor": py.Xor,
	"pow": func(a, b py.Object) (py.Object, error) { return py.Pow(a, b, py.None) },
	"lt":  py.Lt, "le": py.Le, "gt": py.Gt, "ge": py.Ge, "eq": py.Eq, "ne": py.Ne,
	"iadd": py.IAdd, "isub": py.ISub, "imul": py.IMul, "ifloordiv": py.IFloorDiv, "imod": py.IMod,
	"ilshift": py.ILshift, "irshift": py.IRshift, "iand": py.IAnd, "ior": py.IOr, "ixor": py.IXor,
	"ipow": func(a, b py.Object) (py.Object, error) { return py.IPow(a, b, py.None) },
	"divmod": func(a, b py.Object) (py.Object, error) {
		q, r, err := py.DivMod(a, b)
		if err != nil {
			return nil, err
		}
		return py.Tuple{q, r}, nil
	},
}

var c07BinOpNames = []string{"add", "sub", "mul", "floordiv", "mod", "divmod", "lshift", "rshift", "and", "or", "xor", "pow",
	"lt", "le", "gt", "ge", "eq", "ne", "iadd", "isub", "imul", "ifloordiv", "imod", "ilshift", "irshift", "iand", "ior", "ixor", "ipow"}

var c07PySym = map[string]string{"add": "+", "sub": "-", "mul": "*", "floordiv": "//", "mod": "%", "lshift": "<<", "rshift": ">>",
	"and": "&", "or": "|", "xor": "^", "pow": "**", "lt": "<", "le": "<=", "gt": ">", "ge": ">=", "eq": "==", "ne": "!="}

func baseOp(op string) string {
	if strings.HasPrefix(op, "i") && op != "invert" {
		return op[1:]
	}
	return op
}

var c07UnOps = map[string]func(a py.Object) (py.Object, error){
	"neg": py.Neg, "pos": py.Pos, "abs": py.Abs, "invert": py.Invert, "bool": py.MakeBool,
}

// reps returns every representation gpython can hold v in.
func reps(v *big.Int) (objs []py.Object, names []string) {
	if v.IsInt64() {
		objs = append(objs, py.Int(v.Int64()))
		names = append(names, "Int")
	}
	objs = append(objs, (*py.BigInt)(new(big.Int).Set(v)))
	names = append(names, "BigInt")
	if v.Sign() == 0 || v.Cmp(bi(1)) == 0 {
		objs = append(objs, py.Bool(v.Sign() != 0))
		names = append(names, "Bool")
	}
	return
}

func objInt(o py.Object) (*big.Int, bool) {
	switch x := o.(type) {
	case py.Int:
		return bi(int64(x)), true
	case *py.BigInt:
		return new(big.Int).Set((*big.Int)(x)), true
	case py.Bool:
		if x {
			return bi(1), true
		}
		return bi(0), true
	}
	return nil, false
}

// judge compares one gpython outcome with the model; returns "" or a divergence kind.
func c07Judge(m mres, res py.Object, err error, pclass string) (kind, actual string) {
	if pclass != "" {
		return "panic:" + pclass, "panic " + pclass
	}
	if err != nil {
		cls, msg := ErrClass(err)
		if m.exc == cls || (m.exc == "NegPowMod" && (cls == "TypeError" || cls == "ValueError")) {
			return "", ""
		}
		return "exc:got=" + cls + ",want=" + m.exc, cls + ": " + msg
	}
	if m.exc != "" {
		return "exc:got=,want=" + m.exc, Enc(res)
	}
	switch {
	case m.b != nil:
		b, ok := res.(py.Bool)
		if !ok || bool(b) != *m.b {
			return "value", Enc(res)
		}
	case m.float:
		f, ok := res.(py.Float)
		if !ok {
			return "type", Enc(res)
		}
		if float64(f) != m.fv {
			// int ** -int is a float pow, whose last bits depend on the platform's libm: relative 1e-12
			d := math.Abs(float64(f) - m.fv)
			if d > 1e-12*math.Abs(m.fv) && !(m.fv == 0 && math.Abs(float64(f)) < 1e-300) {
				return "value", Enc(res)
			}
		}
	case m.v2 != nil:
		t, ok := res.(py.Tuple)
		if !ok || len(t) != 2 {
			return "type", Enc(res)
		}
		q, ok1 := objInt(t[0])
		r, ok2 := objInt(t[1])
		if !ok1 || !ok2 || q.Cmp(m.v) != 0 || r.Cmp(m.v2) != 0 {
			return "value", Enc(res)
		}
	default:
		if _, isBool := res.(py.Bool); isBool {
			// bool op bool may stay bool for & | ^ : value still has to match
		}
		x, ok := objInt(res)
		if !ok {
			return "type", Enc(res)
		}
		if x.Cmp(m.v) != 0 {
			return "value", Enc(res)
		}
	}
	return "", ""
}

func (m mres) String() string {
	switch {
	case m.exc != "":
		return "exc=" + m.exc
	case m.b != nil:
		return fmt.Sprint(*m.b)
	case m.float:
		return fmt.Sprintf("float %v", m.fv)
	case m.v2 != nil:
		return "(" + m.v.String() + ", " + m.v2.String() + ")"
	}
	return m.v.String()
}

func fits64(v *big.Int) bool { return v != nil && v.IsInt64() }

func nearBoundary(v *big.Int) bool {
	if v == nil {
		return false
	}
	return v.BitLen() >= 62
}

// c07CheckBin runs one (op, a, b) over all representation combinations.
func c07CheckBin(r *Run, op string, a, b *big.Int) bool {
	m := modelBin(baseOp(op), a, b)
	if m.skip {
		return true
	}
	ao, an := reps(a)
	bo, bn := reps(b)
	nt := nearBoundary(a) || nearBoundary(b) || nearBoundary(m.v) || m.exc != "" || len(ao)*len(bo) > 1
	r.Count(op+" "+a.String()+" "+b.String(), nt)
	ok := true
	for i := range ao {
		for j := range bo {
			var res py.Object
			var err error
			f := c07BinOps[op]
			pclass, ptop, _ := Protect(func() { res, err = f(ao[i], bo[j]) })
			if ptop != "" {
				pclass = ptop + ":" + pclass
			}
			kind, actual := c07Judge(m, res, err, pclass)
			if kind != "" {
				ovf := ""
				if m.v != nil && !fits64(m.v) && fits64(a) && fits64(b) {
					ovf = ":ovf"
				}
				cs := &Case{Kind: "c07api", Sig: fmt.Sprintf("api:%s:%s:%s,%s%s", baseOp(op), kind, an[i], bn[j], ovf),
					Args:     map[string]interface{}{"op": op, "a": a.String(), "b": b.String(), "ra": an[i], "rb": bn[j]},
					Expected: m.String(), Actual: actual,
					Detail: fmt.Sprintf("%s(%s as %s, %s as %s)", op, a, an[i], b, bn[j])}
				if !r.Mismatch(cs) {
					ok = false
				}
			}
		}
	}
	return ok
}

func c07CheckUn(r *Run, op string, a *big.Int) bool {
	m := modelUn(op, a)
	ao, an := reps(a)
	r.Count(op+" "+a.String(), nearBoundary(a) || len(ao) > 1)
	ok := true
	for i := range ao {
		var res py.Object
		var err error
		pclass, ptop, _ := Protect(func() { res, err = c07UnOps[op](ao[i]) })
		if ptop != "" {
			pclass = ptop + ":" + pclass
		}
		kind, actual := c07Judge(m, res, err, pclass)
		if kind != "" {
			cs := &Case{Kind: "c07api", Sig: fmt.Sprintf("api:%s:%s:%s", op, kind, an[i]),
				Args:     map[string]interface{}{"op": op, "a": a.String(), "ra": an[i]},
				Expected: m.String(), Actual: actual, Detail: fmt.Sprintf("%s(%s as %s)", op, a, an[i])}
			if !r.Mismatch(cs) {
				ok = false
			}
		}
	}
	return ok
}

func c07CheckPow3(r *Run, a, b, mod *big.Int) bool {
	if mod.Sign() == 0 && (!b.IsInt64() || b.Int64() > c07MaxExp) {
		return true // an implementation that ignores a zero modulus would compute a**b: bounded like pow
	}
	m := modelPow3(a, b, mod)
	ao, an := reps(a)
	bo, bn := reps(b)
	mo, mn := reps(mod)
	r.Count("pow3 "+a.String()+" "+b.String()+" "+mod.String(), true)
	ok := true
	for i := range ao {
		for j := range bo {
			for k := range mo {
				var res py.Object
				var err error
				pclass, ptop, _ := Protect(func() { res, err = py.Pow(ao[i], bo[j], mo[k]) })
				if ptop != "" {
					pclass = ptop + ":" + pclass
				}
				kind, actual := c07Judge(m, res, err, pclass)
				if kind != "" {
					extra := ""
					if mod.Sign() < 0 {
						extra = ":negmod"
					} else if mod.Sign() == 0 {
						extra = ":zeromod"
					}
					cs := &Case{Kind: "c07api", Sig: fmt.Sprintf("api:pow3:%s%s:%s,%s,%s", kind, extra, an[i], bn[j], mn[k]),
						Args:     map[string]interface{}{"op": "pow3", "a": a.String(), "b": b.String(), "m": mod.String(), "ra": an[i], "rb": bn[j], "rm": mn[k]},
						Expected: m.String(), Actual: actual, Detail: fmt.Sprintf("pow(%s, %s, %s) reps %s,%s,%s", a, b, mod, an[i], bn[j], mn[k])}
					if !r.Mismatch(cs) {
						ok = false
					}
				}
			}
		}
	}
	return ok
}

// text conversions through the Go API: str/repr, and parsing in every base.
func c07CheckText(r *Run, a *big.Int) bool {
	ok := true
	ao, an := reps(a)
	r.Count("text "+a.String(), nearBoundary(a))
	for i := range ao {
		if an[i] == "Bool" {
			continue
		}
		for _, fn := range []string{"str", "repr"} {
			var res py.Object
			var err error
			pclass, _, _ := Protect(func() {
				if fn == "str" {
					res, err = py.Str(ao[i])
				} else {
					res, err = py.Repr(ao[i])
				}
			})
			got := ""
			if s, isStr := res.(py.String); isStr {
				got = string(s)
			}
			if pclass != "" || err != nil || got != a.String() {
				if !r.Mismatch(&Case{Kind: "c07api", Sig: "api:" + fn + ":" + an[i], Args: map[string]interface{}{"op": fn, "a": a.String(), "ra": an[i]},
					Expected: a.String(), Actual: got + pclass, Detail: fn + " of " + a.String()}) {
					ok = false
				}
			}
		}
	}
	// the builtin text conversions applied to every representation of the value (a literal such as -2**63 reaches them as a
	// big int only; the result of arithmetic reaches them as a machine word)
	{
		sign := ""
		mag := new(big.Int).Abs(a)
		if a.Sign() < 0 {
			sign = "-"
		}
		want := map[string]string{"hex": sign + "0x" + mag.Text(16), "oct": sign + "0o" + mag.Text(8), "bin": sign + "0b" + mag.Text(2), "str": a.String(), "repr": a.String()}
		for i := range ao {
			if an[i] == "Bool" {
				continue
			}
			for _, fn := range []string{"hex", "oct", "bin", "str", "repr"} {
				f := c07Builtin(fn)
				var res py.Object
				var err error
				pclass, _, _ := Protect(func() { res, err = py.Call(f, py.Tuple{ao[i]}, nil) })
				got := ""
				if s, isStr := res.(py.String); isStr {
					got = string(s)
				}
				if pclass != "" || err != nil || got != want[fn] {
					if !r.Mismatch(&Case{Kind: "c07api", Sig: "api:builtin-" + fn + ":" + an[i], Args: map[string]interface{}{"op": "builtin-" + fn, "a": a.String(), "ra": an[i]},
						Expected: want[fn], Actual: got + pclass, Detail: fn + "(" + a.String() + ") with the value held as " + an[i]}) {
						ok = false
					}
				}
			}
		}
	}
	for _, base := range []int{2, 8, 10, 16, 36, 0} {
		var text string
		sign := ""
		mag := new(big.Int).Abs(a)
		if a.Sign() < 0 {
			sign = "-"
		}
		switch base {
		case 0:
			text = sign + "0x" + mag.Text(16)
		default:
			text = sign + mag.Text(base)
		}
		var res py.Object
		var err error
		pclass, _, _ := Protect(func() { res, err = py.IntFromString(text, base) })
		x, isInt := objInt(res)
		if pclass != "" || err != nil || !isInt || x.Cmp(a) != 0 {
			act := pclass
			if err != nil {
				act, _ = ErrClass(err)
			} else if res != nil {
				act = Enc(res)
			}
			if !r.Mismatch(&Case{Kind: "c07api", Sig: fmt.Sprintf("api:parse:base%d", base), Args: map[string]interface{}{"op": "parse", "text": text, "base": base, "a": a.String()},
				Expected: a.String(), Actual: act, Detail: fmt.Sprintf("int(%q, %d)", text, base)}) {
				ok = false
			}
		}
	}
	// spellings that are not integer literals: a sign after the base prefix, a doubled sign, a prefix of another base, inner space
	if a.Sign() != 0 {
		mag := new(big.Int).Abs(a)
		for _, t := range []struct {
			text string
			base int
		}{{"-0x-" + mag.Text(16), 16}, {"0x+" + mag.Text(16), 16}, {"+-" + mag.Text(10), 10}, {"--" + mag.Text(10), 10}, {"-+" + mag.Text(10), 0}, {"0b-" + mag.Text(2), 2}, {"0o+" + mag.Text(8), 0},
			{"- " + mag.Text(10), 10}, {mag.Text(10) + " " + mag.Text(10), 10}, {"0x" + mag.Text(16), 10}, {"0b" + mag.Text(2), 8}, {"-", 10}, {"0x", 16}, {"0x", 0}, {mag.Text(10) + "-", 10}} {
			var res py.Object
			var err error
			pclass, _, _ := Protect(func() { res, err = py.IntFromString(t.text, t.base) })
			cls, _ := ErrClass(err)
			if pclass != "" || cls != "ValueError" {
				act := pclass + cls
				if err == nil && res != nil {
					act = Enc(res)
				}
				if !r.Mismatch(&Case{Kind: "c07api", Sig: fmt.Sprintf("api:parse-invalid:base%d", t.base), Args: map[string]interface{}{"op": "parse-invalid", "text": t.text, "base": t.base, "a": a.String()},
					Expected: "ValueError", Actual: act, Detail: fmt.Sprintf("int(%q, %d)", t.text, t.base)}) {
					ok = false
				}
			}
		}
	}
	return ok
}

var c07BuiltinCtx py.Context

// c07Builtin returns a function of the builtins module (of one context kept for the whole run)
func c07Builtin(name string) py.Object {
	if c07BuiltinCtx == nil {
		c07BuiltinCtx, _ = NewCtx(nil, nil)
	}
	return c07BuiltinCtx.Store().Builtins.Globals[name]
}

// ---------------------------------------------------------------- domain

func c07Lattice() []*big.Int {
	seen := map[string]bool{}
	var out []*big.Int
	add := func(v *big.Int) {
		for _, s := range []int{1, -1} {
			x := new(big.Int).Set(v)
			if s < 0 {
				x.Neg(x)
			}
			if !seen[x.String()] {
				seen[x.String()] = true
				out = append(out, x)
			}
		}
	}
	for _, s := range []int64{0, 1, 2, 3, 5, 7, 10, 31, 32, 33, 62, 63, 64, 65} {
		add(bi(s))
	}
	for _, k := range []uint{31, 32, 62, 63, 64, 127} {
		for d := int64(-2); d <= 2; d++ {
			v := new(big.Int).Lsh(bi(1), k)
			v.Add(v, bi(d))
			add(v)
		}
	}
	for d := int64(-2); d <= 2; d++ {
		add(bi(3037000499 + d)) // floor(sqrt(2**63)) = 2**31.5
	}
	return out
}

func drawBig(g *G) *big.Int {
	switch g.Weighted(3, 1) {
	case 1:
		l := c07Lattice()
		return l[g.N(len(l))]
	}
	bits := g.Int(1, 192)
	nbytes := (bits + 7) / 8
	buf := make([]byte, nbytes)
	for i := range buf {
		buf[i] = byte(g.N(256))
	}
	v := new(big.Int).SetBytes(buf)
	v.Rsh(v, uint(nbytes*8-bits))
	if g.Bool() {
		v.Neg(v)
	}
	return v
}

func c07Literal(g *G, v *big.Int) string {
	mag := new(big.Int).Abs(v)
	sign := ""
	if v.Sign() < 0 {
		sign = "-"
	}
	switch g.N(5) {
	case 0:
		return "(" + sign + "0x" + mag.Text(16) + ")"
	case 1:
		return "(" + sign + "0o" + mag.Text(8) + ")"
	case 2:
		return "(" + sign + "0b" + mag.Text(2) + ")"
	case 3:
		return "(" + sign + "0X" + strings.ToUpper(mag.Text(16)) + ")"
	}
	return "(" + v.String() + ")"
}

var c07Vars = []string{"_res"}

func TestC07(t *testing.T) {
	r := StartRun(t, "C07")
	defer r.Finish()
	r.Extra("rule", "operands from the boundary lattice (0, small, 2**k+d for k in 31,32,62,63,64,127, 2**31.5, both signs) and rapid-drawn 1..192-bit values; "+
		"every operator through the Go API in every representation combination (Int/BigInt/Bool) against a math/big model written from the language "+
		"reference, plus compiled source text (all literal bases) against CPython and the model. Non-trivial: an operand or the exact result has >= 62 bits, "+
		"or several representation combinations exist, or an exception is expected; distinct by (op, operands).")
	r.Extra("assumptions", []string{"math/big is correct", "shift counts <= 256 and exponents <= 64 (beyond that the case measures allocation)",
		"pow with negative exponent and modulus: TypeError (3.4) or ValueError (3.5+) both accepted", "float result of a negative exponent within relative 1e-12 of the exact value (libm-dependent last bits are not Python-defined)"})
	r.ReplayKnown()
	lat := c07Lattice()
	// exhaustive lattice pairs x operators x representation combinations
	if r.Shard == 0 {
		for _, a := range lat {
			for _, op := range []string{"neg", "pos", "abs", "invert", "bool"} {
				c07CheckUn(r, op, a)
			}
			c07CheckText(r, a)
			for _, b := range lat {
				for _, op := range c07BinOpNames {
					c07CheckBin(r, op, a, b)
				}
			}
		}
		exps := []*big.Int{bi(0), bi(1), bi(2), bi(3), bi(5), bi(63), bi(64), bi(-1), bi(-2), new(big.Int).Lsh(bi(1), 64)}
		step := 1
		if !r.Thorough() {
			step = 3
		}
		for i := 0; i < len(lat); i += step {
			for _, b := range exps {
				for _, m := range lat {
					c07CheckPow3(r, lat[i], b, m)
				}
			}
		}
		r.SetExhaustive(true)
		r.Class("lattice")
		c07Source(r, lat)
	}
	rapid.Check(t, func(rt *rapid.T) {
		g := &G{T: rt}
		a, b := drawBig(g), drawBig(g)
		op := c07BinOpNames[g.N(len(c07BinOpNames))]
		if (baseOp(op) == "lshift" || baseOp(op) == "pow") && g.Chance(3, 4) {
			b = bi(int64(g.Int(-3, 70)))
		}
		r.Class("random")
		r.Sample(op+a.String()+b.String(), fmt.Sprintf("%s(%s, %s)", op, a, b))
		ok := c07CheckBin(r, op, a, b)
		if g.Chance(1, 4) {
			un := []string{"neg", "pos", "abs", "invert", "bool"}[g.N(5)]
			ok = c07CheckUn(r, un, a) && ok
			ok = c07CheckText(r, a) && ok
		}
		if g.Chance(1, 4) {
			m := drawBig(g)
			e := bi(int64(g.Int(-2, 70)))
			ok = c07CheckPow3(r, a, e, m) && ok
		}
		if !ok {
			rt.Fatalf("C07 mismatch")
		}
	})
}

// c07Source runs arithmetic on literals through the compiler, in gpython and CPython, and checks
// both against the model (a model/CPython disagreement is a harness error).
func c07Source(r *Run, lat []*big.Int) {
	orc, err := GetOracle()
	if err != nil {
		r.Infra("%v", err)
	}
	_ = orc
	type item struct {
		line string
		m    mres
		key  string
	}
	var items []item
	ops := []string{"add", "sub", "mul", "floordiv", "mod", "lshift", "rshift", "and", "or", "xor", "pow", "lt", "le", "gt", "ge", "eq", "ne"}
	idx := 0
	stride := 7
	if r.Thorough() {
		stride = 1
	}
	lit := func(v *big.Int, how int) string {
		mag := new(big.Int).Abs(v)
		sign := ""
		if v.Sign() < 0 {
			sign = "-"
		}
		switch how % 4 {
		case 0:
			return "(" + v.String() + ")"
		case 1:
			return "(" + sign + "0x" + mag.Text(16) + ")"
		case 2:
			return "(" + sign + "0o" + mag.Text(8) + ")"
		}
		return "(" + sign + "0b" + mag.Text(2) + ")"
	}
	for _, a := range lat {
		for _, b := range lat {
			for _, op := range ops {
				idx++
				if idx%stride != 0 {
					continue
				}
				m := modelBin(op, a, b)
				if m.skip || m.float {
					continue
				}
				items = append(items, item{fmt.Sprintf("lambda: %s %s %s", lit(a, idx), c07PySym[op], lit(b, idx/4)), m, op + " " + a.String() + " " + b.String()})
			}
		}
		for _, fn := range []string{"str", "bin", "oct", "hex", "abs", "-", "~", "int(str(%s))", "int(hex(%s), 16)", "int(bin(%s), 2)", "int(oct(%s), 8)", "bool"} {
			var line string
			var m mres
			switch {
			case strings.Contains(fn, "%s"):
				line = "lambda: " + fmt.Sprintf(fn, lit(a, 0))
				m = mres{v: a}
			case fn == "-":
				line, m = "lambda: -"+lit(a, 1), modelUn("neg", a)
			case fn == "~":
				line, m = "lambda: ~"+lit(a, 2), modelUn("invert", a)
			case fn == "abs":
				line, m = "lambda: abs("+lit(a, 3)+")", modelUn("abs", a)
			case fn == "bool":
				line, m = "lambda: bool("+lit(a, 0)+")", modelUn("bool", a)
			default:
				line = "lambda: " + fn + "(" + lit(a, 0) + ")"
				m = mres{skip: true} // text forms are checked against CPython only
			}
			items = append(items, item{line, m, fn + " " + a.String()})
		}
		for _, b := range []int64{0, 1, 2, 5} { // negative exponent with modulus: TypeError in 3.4, ValueError in 3.5+ (API path accepts both)
			for _, mod := range []int64{0, 1, -5, 7, 1 << 40} {
				items = append(items, item{fmt.Sprintf("lambda: pow(%s, %d, %d)", lit(a, 0), b, mod), modelPow3(a, bi(b), bi(mod)), fmt.Sprintf("pow3 %s %d %d", a, b, mod)})
			}
		}
		items = append(items, item{fmt.Sprintf("lambda: divmod(%s, 7)", lit(a, 1)), mres{skip: true}, "divmod7 " + a.String()})
		items = append(items, item{fmt.Sprintf("lambda: divmod(%s, -(2**63))", lit(a, 1)), mres{skip: true}, "divmodmin " + a.String()})
	}
	prelude := `_res = []
def run(t):
    try:
        _res.append(t())
    except ZeroDivisionError:
        _res.append('ZeroDivisionError')
    except OverflowError:
        _res.append('OverflowError')
    except TypeError:
        _res.append('TypeError')
    except ValueError:
        _res.append('ValueError')
    except Exception:
        _res.append('Exception')
`
	const batch = 400
	for i := 0; i < len(items); i += batch {
		j := i + batch
		if j > len(items) {
			j = len(items)
		}
		var sb strings.Builder
		sb.WriteString(prelude)
		for _, it := range items[i:j] {
			sb.WriteString("run(" + it.line + ")\n")
		}
		d, err := PyDiff(sb.String(), PyDiffOpts{Vars: c07Vars})
		if err != nil {
			r.Infra("%v", err)
		}
		for _, it := range items[i:j] {
			r.Count("src "+it.key, true)
		}
		r.Class("source-text")
		r.Sample("src"+items[i].line, items[i].line)
		// model vs CPython (harness self-check)
		if d.O != nil {
			els := SplitTop(d.O.Obs["_res"])
			if len(els) == j-i {
				for k, it := range items[i:j] {
					if it.m.skip || it.m.float {
						continue
					}
					want := ""
					switch {
					case it.m.exc == "NegPowMod":
						continue
					case it.m.exc != "":
						want = encStr(it.m.exc)
					case it.m.b != nil:
						want = map[bool]string{true: "T", false: "F"}[*it.m.b]
					default:
						want = "i" + it.m.v.String()
					}
					if els[k] != want {
						r.Infra("model and CPython disagree on %s: model %s, CPython %s", it.line, want, els[k])
					}
				}
			}
		}
		if d.Sig != "" {
			line := "?"
			if d.Index >= 0 && d.Index < j-i {
				line = items[i+d.Index].line
			}
			p := prelude + "run(" + line + ")\n"
			opname := strings.Fields(items[i+maxInt(d.Index, 0)].key)[0]
			r.Mismatch(&Case{Kind: "pydiff", Sig: "src:" + opname + ":" + d.Sig, Program: p, Vars: c07Vars, Expected: d.Expected, Actual: d.Actual, Detail: line})
		}
	}
}

func maxInt(a, b int) int {
	if a > b {
		return a
	}
	return b
}

func init() {
	replayers["c07api"] = func(c *Case) (string, string, error) {
		get := func(k string) *big.Int {
			s, _ := c.Args[k].(string)
			v, ok := new(big.Int).SetString(s, 10)
			if !ok {
				return bi(0)
			}
			return v
		}
		rep := func(v *big.Int, name string) py.Object {
			objs, names := reps(v)
			for i, n := range names {
				if n == name {
					return objs[i]
				}
			}
			return objs[0]
		}
		op, _ := c.Args["op"].(string)
		ra, _ := c.Args["ra"].(string)
		rb, _ := c.Args["rb"].(string)
		rm, _ := c.Args["rm"].(string)
		var m mres
		var res py.Object
		var err error
		var pclass string
		switch {
		case op == "pow3":
			m = modelPow3(get("a"), get("b"), get("m"))
			pclass, _, _ = Protect(func() { res, err = py.Pow(rep(get("a"), ra), rep(get("b"), rb), rep(get("m"), rm)) })
		case op == "str" || op == "repr":
			a := get("a")
			pclass, _, _ = Protect(func() {
				if op == "str" {
					res, err = py.Str(rep(a, ra))
				} else {
					res, err = py.Repr(rep(a, ra))
				}
			})
			if s, ok := res.(py.String); ok && string(s) == a.String() && err == nil && pclass == "" {
				return "", "", nil
			}
			return "api:" + op, fmt.Sprint(res, err, pclass), nil
		case strings.HasPrefix(op, "builtin-"):
			a := get("a")
			fn := strings.TrimPrefix(op, "builtin-")
			pclass, _, _ = Protect(func() { res, err = py.Call(c07Builtin(fn), py.Tuple{rep(a, ra)}, nil) })
			if s, ok := res.(py.String); ok && string(s) == c.Expected && err == nil && pclass == "" {
				return "", "", nil
			}
			return "api:" + op, fmt.Sprint(res, err, pclass), nil
		case op == "parse-invalid":
			text, _ := c.Args["text"].(string)
			base, _ := c.Args["base"].(float64)
			pclass, _, _ = Protect(func() { res, err = py.IntFromString(text, int(base)) })
			if cls, _ := ErrClass(err); cls == "ValueError" && pclass == "" {
				return "", "", nil
			}
			return "api:parse-invalid", fmt.Sprint(res, err, pclass), nil
		case op == "parse":
			text, _ := c.Args["text"].(string)
			base, _ := c.Args["base"].(float64)
			pclass, _, _ = Protect(func() { res, err = py.IntFromString(text, int(base)) })
			x, ok := objInt(res)
			if ok && x.Cmp(get("a")) == 0 && err == nil && pclass == "" {
				return "", "", nil
			}
			return "api:parse", fmt.Sprint(res, err, pclass), nil
		case c07UnOps[op] != nil:
			m = modelUn(op, get("a"))
			pclass, _, _ = Protect(func() { res, err = c07UnOps[op](rep(get("a"), ra)) })
		case c07BinOps[op] != nil:
			m = modelBin(baseOp(op), get("a"), get("b"))
			pclass, _, _ = Protect(func() { res, err = c07BinOps[op](rep(get("a"), ra), rep(get("b"), rb)) })
		default:
			return "", "", fmt.Errorf("c07api: unknown op %q", op)
		}
		kind, actual := c07Judge(m, res, err, pclass)
		if kind == "" {
			return "", "", nil
		}
		return "api:" + op + ":" + kind, "expected " + m.String() + " actual " + actual, nil
	}
}

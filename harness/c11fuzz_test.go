//go:build verif

package harness

// C11, coverage-guided phase: Go's native fuzzer over source bytes. The corpus starts from the token alphabet, the reject
// templates and the repository's small .py files; the oracle is c11Judge (code object, or SyntaxError family with
// filename/lineno/offset, within a watchdog). A failing input is written as the replay case before the fuzzer stops.

import (
	"encoding/json"
	"os"
	"path/filepath"
	"strconv"
	"strings"
	"testing"
	"time"

	"github.com/go-python/gpython/py"
)

func FuzzC11(f *testing.F) {
	for _, a := range c11Alphabet {
		f.Add(a, byte(0))
		f.Add("x = "+a+"\n", byte(1))
	}
	for i, tpl := range rejectTemplates {
		f.Add(tpl, byte(i))
	}
	for i, p := range c11RepoFiles() {
		if b, err := os.ReadFile(p); err == nil && len(b) < 6000 {
			f.Add(string(b), byte(i))
		}
	}
	// hostile constants
	for _, s := range []string{"\\", "(\\", "x.", "1.", "'\\", "\"\"\"\\", "\t \tx", "if 1:\n\tx\n        y\n", "lambda *,: 0", "f(**", "f(*", "def f(a=1, b): pass", "@a.b\ndef f(): pass\n",
		strings.Repeat("(", 300), strings.Repeat("[", 100) + strings.Repeat("]", 100), "x = " + strings.Repeat("-", 200) + "1", "0" + strings.Repeat("_", 5) + "1", "\xef\xbb\xbfx = 1", "\x00", "x = 1\x00y"} {
		f.Add(s, byte(2))
	}
	out := os.Getenv("VERIF_OUT")
	f.Fuzz(func(t *testing.T, src string, m byte) {
		if len(src) > 20000 {
			return
		}
		mode := c11Modes[int(m)%len(c11Modes)]
		sig, detail, _ := c11Judge(src, mode, 10*time.Second)
		if sig == "hang" {
			sig, detail, _ = c11Judge(src, mode, 60*time.Second)
			if sig == "hang" {
				sig, detail, _ = c11Judge(src, mode, 300*time.Second)
			}
		}
		if sig == "" {
			return
		}
		if fs, err := LoadFindings(); err == nil {
			if _, known := fs.MatchSig("C11", sig); known {
				return
			}
		}
		c := &Case{Property: "C11", Kind: "c11", Sig: sig, Program: src, Mode: string(mode), Expected: "code object or SyntaxError with filename/lineno/offset", Actual: sig + ": " + detail, Detail: "native fuzzer"}
		if out != "" {
			if b, err := json.MarshalIndent(c, "", " "); err == nil {
				os.WriteFile(filepath.Join(out, "violation.json"), b, 0o644)
			}
		}
		t.Fatalf("C11 violation %s: %s", sig, detail)
	})
}

var _ = py.ExecMode

func init() {
	// a crasher saved by the native fuzzer itself (the worker died before the target could report): corpus file format
	replayers["fuzz-crasher"] = func(c *Case) (string, string, error) {
		var src string
		mode := c11Modes[0]
		for _, line := range strings.Split(c.Program, "\n") {
			line = strings.TrimSpace(line)
			if strings.HasPrefix(line, "string(") && strings.HasSuffix(line, ")") {
				if s, err := strconv.Unquote(line[len("string(") : len(line)-1]); err == nil {
					src = s
				}
			}
			if strings.HasPrefix(line, "byte(") && strings.HasSuffix(line, ")") {
				if s, err := strconv.Unquote(line[len("byte(") : len(line)-1]); err == nil && len(s) > 0 {
					mode = c11Modes[int(s[0])%len(c11Modes)]
				}
			}
		}
		sig, detail, _ := c11Judge(src, mode, 60*time.Second)
		return sig, detail, nil
	}
}

//go:build verif

package harness

// C17 — lists, dicts and sets match a reference model over any history (DESIGN section 6).

import (
	"fmt"
	"strings"
	"testing"

	"pgregory.net/rapid"
)

const c17Prelude = `_res = []
def t(f):
    try:
        return f()
    except IndexError:
        return 'IndexError'
    except KeyError:
        return 'KeyError'
    except ValueError:
        return 'ValueError'
    except TypeError:
        return 'TypeError'
    except AttributeError:
        return 'AttributeError'
    except RuntimeError:
        return 'RuntimeError'
    except Exception:
        return 'Exception'
def setitem(x, i, v):
    x[i] = v
def setslice(x, i, j, v):
    x[i:j] = v
def delitem(x, i):
    del x[i]
def delslice(x, i, j):
    del x[i:j]
def setslice3(x, i, j, k, v):
    x[i:j:k] = v
def delslice3(x, i, j, k):
    del x[i:j:k]
def grow(x):
    n = 0
    for e in x:
        n += 1
        if len(x) < 7:
            x.append(e + 10)
    return n
def shrink(x):
    n = 0
    for e in x:
        n += 1
        del x[0]
    return n
def sortmut(x):
    def k(e):
        x.append(99)
        return e
    x.sort(key=k)
`

type c17Gen struct {
	g     *G
	r     *Run
	kind  string
	kinds map[string]bool
	alias bool // an alias or copy exists and a mutation followed
}

var c17Names = []string{"a", "b", "c"}

func (c *c17Gen) name() string { return c17Names[c.g.N(3)] }
func (c *c17Gen) ival() string { return fmt.Sprint(c.g.Ints(0, 1, 2, 3, 5, -1, 7)) }
func (c *c17Gen) idx() string  { return fmt.Sprint(c.g.Ints(0, 1, 2, -1, -2, 3, 5, -7)) }
func (c *c17Gen) oidx() string {
	return c.g.Str("None", "None", "0", "1", "2", "-1", "-2", "3", "5", "-7")
}
func (c *c17Gen) stepv() string {
	return c.g.Str("None", "1", "2", "3", "-1", "-2", "-3", "-5", "0")
}
func (c *c17Gen) key() string { return c.g.Str("'k'", "'m'", "'n'", "''", "'k2'") }

func (c *c17Gen) snap() string {
	switch c.kind {
	case "list":
		return "_res.append((list(a), list(b), list(c), a is b, b is c, a is c))\n"
	case "dict":
		return "_res.append((dict(a), dict(b), dict(c), a is b, b is c, a is c))\n"
	}
	return "_res.append((set(a), set(b), set(c), a is b, b is c, a is c))\n"
}

func (c *c17Gen) use(k string) { c.kinds[k] = true }

func (c *c17Gen) step() string {
	g := c.g
	x, y := c.name(), c.name()
	rec := func(expr string) string { return "_res.append(t(lambda: " + expr + "))\n" }
	switch c.kind {
	case "list":
		switch g.Weighted(4, 2, 2, 2, 2, 2, 2, 2, 2, 2, 2, 2, 2, 1, 1, 1, 1, 1, 2, 2, 1, 2, 3) {
		case 21:
			// the whole list assigned to an extended slice of itself or of an alias (lengths always match)
			c.use("setslice-step-self")
			return rec("setslice3(" + x + ", None, None, " + g.Str("-1", "-1", "1", "None") + ", " + g.Str(x, x, y) + ")")
		case 22:
			// an iterator object kept across the steps: it walks the live list, and once exhausted it stays exhausted
			c.use("kept-iterator")
			switch g.Weighted(2, 4, 1, 1) {
			case 0:
				return "it = iter(" + x + ")\n"
			case 1:
				return rec("(next(it, 'stop'), next(it, 'stop'))")
			case 2:
				return rec("[e for e in it]")
			default:
				return rec("(list(it), next(it, 'stop'))")
			}
		case 18:
			c.use("delslice-step")
			return rec("delslice3(" + x + ", " + c.oidx() + ", " + c.oidx() + ", " + c.stepv() + ")")
		case 19:
			c.use("setslice-step")
			rhs := g.Str("[]", "[8]", "[8, 9]", "[8, 9, 6]", y, x, x+"[::-1]", "(6, 4)")
			return rec("setslice3(" + x + ", " + c.oidx() + ", " + c.oidx() + ", " + c.stepv() + ", " + rhs + ")")
		case 20:
			c.use("getslice-step")
			return rec(x + "[" + c.oidx() + ":" + c.oidx() + ":" + c.stepv() + "]")
		case 0:
			c.use("append")
			return rec(x + ".append(" + c.ival() + ")")
		case 1:
			c.use("extend")
			if g.Bool() {
				return rec(x + ".extend(" + y + ")")
			}
			return rec(x + ".extend([" + c.ival() + ", " + c.ival() + "])")
		case 2:
			c.use("sort")
			return rec(x + ".sort(" + g.Str("", "reverse=True", "key=lambda e: -e", "key=lambda e: e % 3", "key=lambda e: e % 3, reverse=True") + ")")
		case 3:
			c.use("setitem")
			return rec("setitem(" + x + ", " + c.idx() + ", " + c.ival() + ")")
		case 4:
			c.use("setslice")
			rhs := g.Str("[]", "[8]", "[8, 9]", y, x, y+"[:]", "(6, 4)")
			return rec("setslice(" + x + ", " + c.idx() + ", " + c.idx() + ", " + rhs + ")")
		case 5:
			c.use("delitem")
			return rec("delitem(" + x + ", " + c.idx() + ")")
		case 6:
			c.use("delslice")
			return rec("delslice(" + x + ", " + c.idx() + ", " + c.idx() + ")")
		case 7:
			c.use("iadd")
			return x + " += " + g.Str("[4]", y, x, "(3,)") + "\n"
		case 8:
			c.use("imul")
			return x + " *= " + fmt.Sprint(g.Ints(0, 1, 2)) + "\n"
		case 9:
			c.use("alias")
			c.alias = true
			return x + " = " + y + "\n"
		case 10:
			c.use("copy")
			c.alias = true
			return x + " = " + g.Str(y+"[:]", "list("+y+")", y+" + []", y+" * 1", "sorted("+y+")", y+" + "+y) + "\n"
		case 11:
			c.use("observe")
			return rec("(" + c.ival() + " in " + x + ", len(" + x + "), " + x + " == " + y + ", " + x + " != " + y + ", [e for e in " + x + "], " + x + "[" + c.idx() + ":" + c.idx() + "])")
		case 12:
			c.use("getitem")
			return rec(x + "[" + c.idx() + "]")
		case 13:
			if !c.r.On("c17.list.iter_mutation") {
				return rec("len(" + x + ")")
			}
			c.use("iterate-grow")
			return rec("grow(" + x + ")")
		case 14:
			if !c.r.On("c17.list.iter_mutation") {
				return rec("len(" + x + ")")
			}
			c.use("iterate-shrink")
			return rec("shrink(" + x + ")")
		case 15:
			// sorting with a key function that mutates the list is declared undefined by the
			// language reference ("the effect ... is undefined"), so it is fenced out
			c.r.Fenced("sort-with-mutating-key")
			return rec("len(" + x + ")")
		case 16:
			c.use("fresh")
			return x + " = [" + c.ival() + ", " + c.ival() + ", " + c.ival() + "]\n"
		default:
			c.use("nested-own-operand")
			return rec(x+".extend("+x+")") + rec(x+".append(len("+x+"))")
		}
	case "dict":
		switch g.Weighted(4, 3, 2, 2, 2, 2, 2, 1, 1) {
		case 0:
			c.use("setitem")
			return rec("setitem(" + x + ", " + c.key() + ", " + c.ival() + ")")
		case 1:
			c.use("delitem")
			return rec("delitem(" + x + ", " + c.key() + ")")
		case 2:
			c.use("observe")
			k := c.key()
			return rec("(" + k + " in " + x + ", " + k + " not in " + x + ", len(" + x + "), " + x + " == " + y + ", " + x + " != " + y + ", sorted(" + x + ".keys()), sorted(" + x + ".values()), len(list(" + x + ".items())), sorted([k for k in " + x + "]))")
		case 3:
			c.use("get")
			k := c.key()
			return rec("(" + x + ".get(" + k + "), " + x + ".get(" + k + ", 'dflt'), t(lambda: " + x + "[" + k + "]))")
		case 4:
			c.use("alias")
			c.alias = true
			return x + " = " + y + "\n"
		case 5:
			c.use("copy")
			c.alias = true
			return x + " = dict(" + y + ")\n"
		case 6:
			c.use("fresh")
			return x + " = {" + c.key() + ": " + c.ival() + ", " + c.key() + ": " + c.ival() + "}\n"
		case 7:
			if !c.r.On("c17.dict.update") {
				return rec("len(" + x + ")")
			}
			c.use("update")
			return rec(x + ".update(" + g.Str(y, "{'u': 1}", "{}") + ")")
		default:
			c.use("items-iteration")
			return rec("sorted([k + str(v) for k, v in " + x + ".items()])")
		}
	default: // set
		switch g.Weighted(4, 3, 3, 2, 2, 2, 2, 3) {
		case 7:
			c.use("inplace-binop")
			return x + " " + g.Str("|=", "&=", "-=", "^=") + " " + g.Str(y, y, x, "{"+c.selem()+"}", "{"+c.selem()+", "+c.selem()+"}") + "\n"
		case 0:
			c.use("add")
			return rec(x + ".add(" + c.selem() + ")")
		case 1:
			c.use("binop")
			c.alias = true
			return x + " = " + y + " " + g.Str("|", "&", "-", "^") + " " + c.name() + "\n"
		case 2:
			c.use("observe")
			if c.kind == "set-mixed" {
				return rec("(" + c.selem() + " in " + x + ", len(" + x + "), " + x + " == " + y + ", " + x + " != " + y + ", len([e for e in " + x + "]))")
			}
			return rec("(" + c.selem() + " in " + x + ", len(" + x + "), " + x + " == " + y + ", " + x + " != " + y + ", sorted([e for e in " + x + "]))")
		case 3:
			c.use("alias")
			c.alias = true
			return x + " = " + y + "\n"
		case 4:
			c.use("copy")
			c.alias = true
			return x + " = set(" + y + ")\n"
		case 5:
			c.use("fresh")
			return x + " = {" + c.selem() + ", " + c.selem() + "}\n"
		default:
			c.use("from-list")
			return x + " = set([" + c.selem() + ", " + c.selem() + ", " + c.selem() + "])\n"
		}
	}
}

func (c *c17Gen) selem() string {
	if c.kind == "set-str" {
		return c.g.Str("'p'", "'q'", "''", "'pq'")
	}
	if c.kind == "set-mixed" {
		// hashable scalars of several types whose values coincide: 1 == 1.0 == True, 0 == 0.0 == False
		return c.g.Str("0", "1", "2", "True", "False", "1.0", "0.0", "2.5", "None", "2")
	}
	return c.ival()
}

var c17Vars = []string{"_res"}

func TestC17(t *testing.T) {
	r := StartRun(t, "C17")
	defer r.Finish()
	r.Extra("rule", "rapid-drawn histories (<=12 steps) over three names bound to lists, string-keyed dicts or sets with generated aliasing (b = a) and copying (slice, constructor, + [], * 1): "+
		"append/extend/sort (key, reverse)/item, slice and extended-slice assignment, deletion and reads/+=/*=/membership/len/==/iteration incl. mutation during iteration and during sort and the container as its own "+
		"operand; dict get/set/del/in/len/==/keys/values/items/get; set add/|/&/-/^ and their in-place forms/in/len/==. After every step all three names are snapshotted (order-normalised) with their identity relations. "+
		"Oracle: CPython running the same history. Non-trivial: an alias or copy exists when a later mutation happens; distinct by program text.")
	r.Extra("assumptions", []string{"CPython 3.6 container semantics equal 3.4's; dict/set order normalised; dict mutation during iteration fenced (RuntimeError timing is implementation-defined)"})
	r.ReplayKnown()
	if _, err := GetOracle(); err != nil {
		r.Infra("%v", err)
	}
	rapid.Check(t, func(rt *rapid.T) {
		c := &c17Gen{g: &G{T: rt}, r: r, kinds: map[string]bool{}}
		c.kind = []string{"list", "list", "dict", "set", "set-str", "set-mixed"}[c.g.N(6)]
		if c.kind == "set-mixed" && !r.On("c17.set.mixed_numeric") {
			c.kind = "set"
		}
		var sb strings.Builder
		switch c.kind {
		case "list":
			sb.WriteString("a = [1, 2, 3]\nb = a\nc = [3, 1]\nit = iter(a)\n")
		case "dict":
			sb.WriteString("a = {'k': 1}\nb = a\nc = {}\n")
		case "set", "set-mixed":
			sb.WriteString("a = {1, 2}\nb = a\nc = set()\n")
		default:
			sb.WriteString("a = {'p'}\nb = a\nc = set()\n")
		}
		n := c.g.Int(1, 12)
		for i := 0; i < n; i++ {
			sb.WriteString(c.step())
			sb.WriteString(c.snap())
		}
		body := sb.String()
		prog := c17Prelude + body
		r.Count(body, c.alias)
		r.Class(c.kind)
		for k := range c.kinds {
			r.Class(c.kind + ":" + k)
		}
		r.Sample(body, body)
		d, err := PyDiff(prog, PyDiffOpts{Vars: c17Vars})
		if err != nil {
			r.Infra("%v", err)
		}
		if d.Sig != "" {
			// signature: container kind + the statement that produced the first diverging observation
			stmt := ""
			if d.Index >= 0 {
				lines := strings.Split(strings.TrimSpace(body), "\n")
				// each step contributes 1 or 2 _res entries: find the step by replaying the count
				cnt := 0
				for _, l := range lines {
					if strings.HasPrefix(l, "_res.append(") {
						if cnt == d.Index {
							stmt = l
							break
						}
						cnt++
					}
				}
			}
			op := "?"
			if i := strings.Index(stmt, "lambda: "); i >= 0 {
				rest := stmt[i+8:]
				if j := strings.IndexAny(rest, "(["); j >= 0 {
					op = rest[:j]
					if k := strings.LastIndex(op, "."); k >= 0 {
						op = op[k+1:]
					}
				}
			} else if strings.Contains(stmt, "list(a)") || strings.Contains(stmt, "dict(a)") || strings.Contains(stmt, "set(a)") {
				op = "snapshot"
			}
			if !r.Mismatch(&Case{Kind: "pydiff", Sig: c.kind + ":" + op + ":" + d.Sig, Program: prog, Vars: c17Vars, Expected: d.Expected, Actual: d.Actual, Detail: d.Detail + " at " + stmt}) {
				rt.Fatalf("C17 mismatch %s", d.Sig)
			}
		}
	})
}

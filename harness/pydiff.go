//go:build verif

package harness

import (
	"fmt"
	"os"
	"path/filepath"
	"strings"
	"time"

	"github.com/go-python/gpython/py"
)

// SplitTop splits the encoded form of a list/tuple ("l[...]" / "t[...]") into its top-level
// elements. For anything else it returns nil.
func SplitTop(enc string) []string {
	if len(enc) < 3 || (enc[0] != 'l' && enc[0] != 't') || enc[1] != '[' || enc[len(enc)-1] != ']' {
		return nil
	}
	body := enc[2 : len(enc)-1]
	if body == "" {
		return []string{}
	}
	var out []string
	depth, start := 0, 0
	for i := 0; i < len(body); i++ {
		switch body[i] {
		case '(', '[', '{':
			depth++
		case ')', ']', '}':
			depth--
		case ',':
			if depth == 0 {
				out = append(out, body[start:i])
				start = i + 1
			}
		}
	}
	out = append(out, body[start:])
	return out
}

// FirstDiff returns the index of the first differing top-level element of two encoded lists
// (-1 if one is not a list), and the two elements.
func FirstDiff(a, b string) (int, string, string) {
	ea, eb := SplitTop(a), SplitTop(b)
	if ea == nil || eb == nil {
		return -1, a, b
	}
	n := len(ea)
	if len(eb) < n {
		n = len(eb)
	}
	for i := 0; i < n; i++ {
		if ea[i] != eb[i] {
			return i, ea[i], eb[i]
		}
	}
	if len(ea) != len(eb) {
		x, y := "<end>", "<end>"
		if n < len(ea) {
			x = ea[n]
		}
		if n < len(eb) {
			y = eb[n]
		}
		return n, x, y
	}
	return -1, "", ""
}

// DecodeStr turns "s(104,105)" back into a Go string ("" if not a string encoding).
func DecodeStr(enc string) string {
	if !strings.HasPrefix(enc, "s(") || !strings.HasSuffix(enc, ")") {
		return ""
	}
	body := enc[2 : len(enc)-1]
	if body == "" {
		return ""
	}
	var sb strings.Builder
	for _, p := range strings.Split(body, ",") {
		var n int
		fmt.Sscanf(p, "%d", &n)
		sb.WriteRune(rune(n))
	}
	return sb.String()
}

// normExc folds the SyntaxError family into SyntaxError (the properties speak of the family).
func normExc(e string) string {
	if e == "IndentationError" || e == "TabError" {
		return "SyntaxError"
	}
	return e
}

// Diff is the outcome of one differential run.
type Diff struct {
	Sig      string // "" = agreement
	Expected string
	Actual   string
	Detail   string
	G        Result
	O        *OracleResp
	Var      string // diverging variable
	Index    int    // first diverging element of that variable (-1 = n/a)
}

// PyDiffOpts tunes the comparison.
type PyDiffOpts struct {
	Vars      []string
	Path      string // directory put on sys.path in both
	Argv      []string
	CompareTB bool
	Stdout    bool
	Timeout   time.Duration
	Setup     func(ctx py.Context, mod *py.Module)
}

// PyDiff runs prog in gpython (fresh context) and in CPython and compares typed observations.
func PyDiff(prog string, o PyDiffOpts) (*Diff, error) {
	orc, err := GetOracle()
	if err != nil {
		return nil, err
	}
	var paths []string
	if o.Path != "" {
		paths = []string{o.Path}
	}
	g := RunProgram(prog, RunOpts{Vars: o.Vars, SysPaths: paths, SysArgs: o.Argv, Timeout: o.Timeout, Setup: o.Setup})
	if g.Timeout {
		// a busy machine is not a hang: believe it only after a second run with twelve times the limit
		limit := o.Timeout
		if limit == 0 {
			limit = 10 * time.Second
		}
		g = RunProgram(prog, RunOpts{Vars: o.Vars, SysPaths: paths, SysArgs: o.Argv, Timeout: 12 * limit, Setup: o.Setup})
	}
	var resp *OracleResp
	if o.Argv != nil {
		resp, err = orc.RunArgv(prog, o.Vars, o.Path, o.Argv)
	} else {
		resp, err = orc.Run(prog, o.Vars, o.Path, "exec")
	}
	if err != nil {
		return nil, err
	}
	d := &Diff{G: g, O: resp, Index: -1}
	want := normExc(resp.ExcName())
	g.Exc = normExc(g.Exc)
	if want == "TIMEOUT" {
		return nil, fmt.Errorf("oracle timeout on generated program (generator unsound):\n%s", prog)
	}
	switch {
	case g.Timeout:
		d.Sig = "timeout"
		d.Expected, d.Actual = "terminates (exc="+want+")", "no result within watchdog"
		return d, nil
	case g.Panic != "":
		d.Sig = "panic:" + g.PanicTop + ":" + g.Panic
		d.Expected, d.Actual = "exc="+want, "Go panic: "+g.ExcMsg
		return d, nil
	}
	// observations first: the first diverging observation is closer to the root cause than
	// the exception that may follow from it
	for _, v := range o.Vars {
		a, b := g.Obs[v], resp.Obs[v]
		if a != b {
			idx, ea, eb := FirstDiff(a, b)
			// a trailing divergence caused only by a different exception is reported as exc
			if g.Exc != want && idx >= 0 && (ea == "<end>" || eb == "<end>") {
				break
			}
			d.Var, d.Index = v, idx
			d.Sig = "obs:" + v
			d.Expected, d.Actual = eb, ea
			d.Detail = fmt.Sprintf("var %s first differs at element %d (gpython exc=%q, python exc=%q)", v, idx, g.Exc, want)
			return d, nil
		}
	}
	if g.Exc != want {
		stage := ""
		if g.Compile != resp.Compile {
			stage = ",stage"
		}
		d.Sig = "exc:got=" + g.Exc + ",want=" + want + stage
		d.Expected, d.Actual = "exc="+want, "exc="+g.Exc+" ("+g.ExcMsg+")"
		return d, nil
	}
	if o.CompareTB && want != "" && !resp.Compile {
		wtb := resp.TBEntries()
		if fmt.Sprint(wtb) != fmt.Sprint(g.TB) {
			d.Sig = "tb"
			d.Expected, d.Actual = fmt.Sprint(wtb), fmt.Sprint(g.TB)
			return d, nil
		}
	}
	if o.Stdout && g.Stdout != resp.Stdout {
		d.Sig = "stdout"
		d.Expected, d.Actual = resp.Stdout, g.Stdout
		return d, nil
	}
	return d, nil
}

// pydiff replayer: Args may carry "tb":true, "stdout":true; Files are written to a temp dir put on sys.path.
func init() {
	replayers["pydiff"] = func(c *Case) (string, string, error) {
		o := PyDiffOpts{Vars: c.Vars}
		if c.Args != nil {
			if b, _ := c.Args["tb"].(bool); b {
				o.CompareTB = true
			}
			if b, _ := c.Args["stdout"].(bool); b {
				o.Stdout = true
			}
		}
		if len(c.Files) > 0 {
			dir, err := os.MkdirTemp("", "verif-replay")
			if err != nil {
				return "", "", err
			}
			defer os.RemoveAll(dir)
			for name, content := range c.Files {
				os.MkdirAll(filepath.Dir(dir+"/"+name), 0o755)
				if err := os.WriteFile(dir+"/"+name, []byte(content), 0o644); err != nil {
					return "", "", err
				}
			}
			o.Path = dir
		}
		d, err := PyDiff(c.Program, o)
		if err != nil {
			return "", "", err
		}
		return d.Sig, "expected " + d.Expected + " actual " + d.Actual, nil
	}
}

//go:build verif

package harness

// C16 — attribute lookup: instance, then C3 MRO; binding (DESIGN section 6).

import (
	"fmt"
	"strings"
	"testing"

	"pgregory.net/rapid"
)

const c16Prelude = `_res = []
def t(f):
    try:
        return f()
    except AttributeError:
        return 'AttributeError'
    except TypeError:
        return 'TypeError'
    except NameError:
        return 'NameError'
    except Exception:
        return 'Exception'
def rec(tag, f):
    _res.append((tag, t(f)))
`

type c16Hier struct {
	n     int
	bases [][]int
	defs  [][]string // per class: which of x, m, cm, sm, __len__ it defines
	dyn   []bool     // per class: built by type(name, bases, ns) from a dict that also builds a twin class and is modified afterwards
}

func (h c16Hier) isDyn(i int) bool { return i < len(h.dyn) && h.dyn[i] }

func (h c16Hier) classDefs() string {
	var sb strings.Builder
	for i := 0; i < h.n; i++ {
		bs := make([]string, len(h.bases[i]))
		for k, b := range h.bases[i] {
			bs[k] = fmt.Sprintf("C%d", b)
		}
		if h.isDyn(i) {
			fmt.Fprintf(&sb, "ns%d = {'__module__': 'dyn'}\n", i)
			for _, d := range h.defs[i] {
				switch d {
				case "x":
					fmt.Fprintf(&sb, "ns%d['x'] = 'C%d'\n", i, i)
				case "m":
					fmt.Fprintf(&sb, "def _m%d(self):\n    return ('C%d', self)\nns%d['m'] = _m%d\n", i, i, i, i)
				case "cm":
					fmt.Fprintf(&sb, "def _cm%d(cls):\n    return ('C%d', cls)\nns%d['cm'] = classmethod(_cm%d)\n", i, i, i, i)
				case "sm":
					fmt.Fprintf(&sb, "def _sm%d(*a):\n    return ('C%d', a)\nns%d['sm'] = staticmethod(_sm%d)\n", i, i, i, i)
				case "len":
					fmt.Fprintf(&sb, "def _len%d(self):\n    return %d\nns%d['__len__'] = _len%d\n", i, i+10, i, i)
				}
			}
			tup := "(" + strings.Join(bs, ", ")
			if len(bs) == 1 {
				tup += ","
			}
			tup += ")"
			fmt.Fprintf(&sb, "C%d = type('C%d', %s, ns%d)\nT%d = type('T%d', %s, ns%d)\nns%d['x'] = 'changed-after'\nns%d['zz'] = 'leak'\n", i, i, tup, i, i, i, tup, i, i, i)
			continue
		}
		head := fmt.Sprintf("class C%d", i)
		if len(bs) > 0 {
			head += "(" + strings.Join(bs, ", ") + ")"
		}
		sb.WriteString(head + ":\n")
		body := 0
		for _, d := range h.defs[i] {
			body++
			switch d {
			case "x":
				fmt.Fprintf(&sb, "    x = 'C%d'\n", i)
			case "m":
				fmt.Fprintf(&sb, "    def m(self):\n        return ('C%d', self)\n", i)
			case "cm":
				fmt.Fprintf(&sb, "    @classmethod\n    def cm(cls):\n        return ('C%d', cls)\n", i)
			case "sm":
				fmt.Fprintf(&sb, "    @staticmethod\n    def sm(*a):\n        return ('C%d', a)\n", i)
			case "len":
				fmt.Fprintf(&sb, "    def __len__(self):\n        return %d\n", i+10)
			}
		}
		if body == 0 {
			sb.WriteString("    pass\n")
		}
	}
	return sb.String()
}

// c3 linearisation (textbook merge); ok=false if inconsistent
func c3(h c16Hier, memo map[int][]int, cls int) ([]int, bool) {
	if m, ok := memo[cls]; ok {
		return m, m != nil
	}
	var seqs [][]int
	for _, b := range h.bases[cls] {
		l, ok := c3(h, memo, b)
		if !ok {
			memo[cls] = nil
			return nil, false
		}
		seqs = append(seqs, append([]int(nil), l...))
	}
	seqs = append(seqs, append([]int(nil), h.bases[cls]...))
	res := []int{cls}
	for {
		nonEmpty := false
		for _, s := range seqs {
			if len(s) > 0 {
				nonEmpty = true
			}
		}
		if !nonEmpty {
			break
		}
		cand := -1
		for _, s := range seqs {
			if len(s) == 0 {
				continue
			}
			c := s[0]
			inTail := false
			for _, s2 := range seqs {
				for k := 1; k < len(s2); k++ {
					if s2[k] == c {
						inTail = true
					}
				}
			}
			if !inTail {
				cand = c
				break
			}
		}
		if cand < 0 {
			memo[cls] = nil
			return nil, false
		}
		res = append(res, cand)
		for i, s := range seqs {
			if len(s) > 0 && s[0] == cand {
				seqs[i] = s[1:]
			}
		}
	}
	memo[cls] = res
	return res, true
}

func (h c16Hier) consistent() bool {
	memo := map[int][]int{}
	for i := 0; i < h.n; i++ {
		// duplicate bases are a TypeError as well
		seen := map[int]bool{}
		for _, b := range h.bases[i] {
			if seen[b] {
				return false
			}
			seen[b] = true
		}
		if _, ok := c3(h, memo, i); !ok {
			return false
		}
	}
	return true
}

// provider returns the class whose definition of name is found from cls along the model MRO (-1 none)
func (h c16Hier) provider(cls int, name string) int {
	memo := map[int][]int{}
	mro, ok := c3(h, memo, cls)
	if !ok {
		return -1
	}
	for _, c := range mro {
		for _, d := range h.defs[c] {
			if d == name {
				return c
			}
		}
	}
	return -1
}

var c16Vars = []string{"_res"}

func drawHier(g *G, maxN int) c16Hier {
	h := c16Hier{n: g.Int(2, maxN)}
	names := []string{"x", "m", "cm", "sm", "len"}
	for i := 0; i < h.n; i++ {
		var bs []int
		if i > 0 {
			nb := g.Int(0, minInt(3, i))
			used := map[int]bool{}
			for k := 0; k < nb; k++ {
				b := g.N(i)
				if used[b] {
					continue
				}
				used[b] = true
				bs = append(bs, b)
			}
		}
		h.bases = append(h.bases, bs)
		var ds []string
		for _, nm := range names {
			if g.Chance(2, 5) {
				ds = append(ds, nm)
			}
		}
		h.defs = append(h.defs, ds)
		h.dyn = append(h.dyn, g.Chance(1, 4))
	}
	return h
}

type c16Access struct {
	tag, code string
}

// accesses generates the access sequence; every access has a feature tag (= generator switch)
func c16Accesses(r *Run, g *G, h c16Hier, k int) []c16Access {
	var out []c16Access
	add := func(tag, code string) {
		if !r.SwitchOn("c16." + tag) {
			r.On("c16." + tag)
			return
		}
		out = append(out, c16Access{tag, code})
	}
	inherited := func(cls int, name string) bool {
		p := h.provider(cls, name)
		return p >= 0 && p != cls
	}
	suffix := func(cls int, name string) string {
		if inherited(cls, name) {
			return ".inherited"
		}
		return ".own"
	}
	for i := 0; i < h.n; i++ {
		ci := fmt.Sprintf("C%d", i)
		add("read.inst.x"+suffix(i, "x"), fmt.Sprintf("rec('%s().x', lambda: %s().x)", ci, ci))
		add("read.class.x"+suffix(i, "x"), fmt.Sprintf("rec('%s.x', lambda: %s.x)", ci, ci))
		add("call.inst.m"+suffix(i, "m"), fmt.Sprintf("o = %s()\nrec('%s().m()', lambda: (o.m()[0], o.m()[1] is o))", ci, ci))
		add("call.class.m"+suffix(i, "m"), fmt.Sprintf("o = %s()\nrec('%s.m(o)', lambda: (%s.m(o)[0], %s.m(o)[1] is o))", ci, ci, ci, ci))
		add("call.inst.cm"+suffix(i, "cm"), fmt.Sprintf("rec('%s().cm()', lambda: (%s().cm()[0], %s().cm()[1] is %s))", ci, ci, ci, ci))
		add("call.class.cm"+suffix(i, "cm"), fmt.Sprintf("rec('%s.cm()', lambda: (%s.cm()[0], %s.cm()[1] is %s))", ci, ci, ci, ci))
		add("call.inst.sm"+suffix(i, "sm"), fmt.Sprintf("rec('%s().sm(1)', lambda: %s().sm(1))", ci, ci))
		add("call.class.sm"+suffix(i, "sm"), fmt.Sprintf("rec('%s.sm()', lambda: (%s.sm(), %s.sm(2, 3)))", ci, ci, ci))
		add("special.len"+suffix(i, "len"), fmt.Sprintf("rec('len(%s())', lambda: len(%s()))", ci, ci))
		for j := 0; j < h.n; j++ {
			cj := fmt.Sprintf("C%d", j)
			tag := "isinstance.exact"
			if i != j {
				tag = "isinstance.other"
			}
			add(tag, fmt.Sprintf("rec('isinstance(%s(), %s)', lambda: isinstance(%s(), %s))", ci, cj, ci, cj))
		}
		add("isinstance.tuple", fmt.Sprintf("rec('isinstance(%s(), (C0, C%d))', lambda: isinstance(%s(), (C0, C%d)))", ci, h.n-1, ci, h.n-1))
		add("getattr.forms", fmt.Sprintf("rec('getattr(%s(), x)', lambda: (getattr(%s(), 'x', 'dflt'), hasattr(%s(), 'x'), hasattr(%s(), 'zz'), t(lambda: getattr(%s(), 'zz'))))", ci, ci, ci, ci, ci))
	}
	// isinstance over the built-in exception hierarchy and a class derived from it
	add("isinstance.exceptions", "rec('isinstance exceptions', lambda: (isinstance(KeyError('k'), LookupError), isinstance(KeyError('k'), KeyError), isinstance(KeyError(), ValueError), isinstance(ZeroDivisionError(), (TypeError, ArithmeticError)), isinstance(5, Exception), isinstance(Exception, Exception)))")
	add("isinstance.exception-with-mixin-first", "class MixE:\n    tag = 'mix'\nclass XM(MixE, ValueError):\n    pass\ndef caught(e, cls):\n    try:\n        raise e\n    except cls:\n        return True\n    except Exception:\n        return False\nrec('exception with a plain first base', lambda: (isinstance(XM('a'), ValueError), isinstance(XM('a'), MixE), caught(XM('a'), ValueError), caught(XM('a'), KeyError), XM('a').tag, XM('a', 2).args))")
	add("isinstance.user-exception", "class XE(LookupError):\n    pass\nrec('isinstance user exception', lambda: (isinstance(XE('a'), LookupError), isinstance(XE('a'), XE), isinstance(XE('a'), KeyError), isinstance(KeyError('a'), XE), XE('a', 2).args))")
	// writes and deletes: only the object they are applied to changes
	if k < 0 {
		k = g.N(h.n)
	}
	ck := fmt.Sprintf("C%d", k)
	allReads := func(tagp string) {
		for i := 0; i < h.n; i++ {
			ci := fmt.Sprintf("C%d", i)
			add(tagp+".reread.inst", fmt.Sprintf("rec('%s().x', lambda: %s().x)", ci, ci))
			add(tagp+".reread.class", fmt.Sprintf("rec('%s.x', lambda: %s.x)", ci, ci))
		}
	}
	add("write.inst", fmt.Sprintf("o1 = %s()\no2 = %s()\no1.x = 'inst'\nrec('o1.x', lambda: (o1.x, t(lambda: o2.x), t(lambda: %s.x)))", ck, ck, ck))
	add("write.inst.setattr", fmt.Sprintf("o3 = %s()\nsetattr(o3, 'x', 'inst3')\nrec('o3.x', lambda: (o3.x, t(lambda: %s().x)))", ck, ck))
	// an instance attribute shadows a method, classmethod or staticmethod of the same name - for that instance only
	add("write.inst.shadow-method", fmt.Sprintf("o4 = %s()\no5 = %s()\no4.m = 'inst-m'\no4.cm = 'inst-cm'\no4.sm = lambda *a: 'inst-sm'\nrec('o4 shadows', lambda: (o4.m, o4.cm, o4.sm(1), t(lambda: o5.m()[0]), t(lambda: o5.cm()[0]), t(lambda: o5.sm(1)), t(lambda: %s.m(o4)[0])))", ck, ck, ck))
	add("delete.inst.shadow-method", "rec('del o4.m', lambda: delattr(o4, 'm'))\nrec('o4.m after del', lambda: (t(lambda: o4.m()[0]), o4.cm, t(lambda: delattr(o4, 'm'))))")
	add("write.inst.in-init", fmt.Sprintf("class Sub%s(%s):\n    def __init__(self, tag):\n        self.m = tag\n        self.x = tag\nrec('init shadows', lambda: (Sub%s('t1').m, Sub%s('t2').x, t(lambda: Sub%s.m(Sub%s('t3'))[0])))", ck, ck, ck, ck, ck, ck))
	add("delete.inst", "rec('del o1.x', lambda: delattr(o1, 'x'))\nrec('o1.x after del', lambda: o1.x)\nrec('del o1.x again', lambda: delattr(o1, 'x'))")
	add("write.class", fmt.Sprintf("%s.x = 'set-on-%s'\nrec('o2.x', lambda: o2.x)", ck, ck))
	allReads("write.class")
	for i := 0; i < h.n; i++ {
		if h.isDyn(i) {
			add("dyn.twin.after-write", fmt.Sprintf("rec('twin of C%d after write', lambda: (t(lambda: T%d.x), t(lambda: T%d().x), ns%d.get('x')))", i, i, i, i))
		}
	}
	dynReads := func(tagp string) {
		for i := 0; i < h.n; i++ {
			if h.isDyn(i) {
				add(tagp, fmt.Sprintf("rec('twin of C%d', lambda: (t(lambda: T%d.x), t(lambda: T%d().x), t(lambda: C%d.x), hasattr(C%d, 'zz'), hasattr(T%d(), 'zz'), sorted(k for k in ns%d if k[0] != '_'), ns%d.get('x')))", i, i, i, i, i, i, i, i))
			}
		}
	}
	dynReads("dyn.twin.before-writes")
	add("delete.class", fmt.Sprintf("rec('del %s.x', lambda: delattr(%s, 'x'))", ck, ck))
	allReads("delete.class")
	dynReads("dyn.twin.after-delete")
	return out
}

func c16Program(h c16Hier, acc []c16Access) string {
	var sb strings.Builder
	sb.WriteString(c16Prelude)
	sb.WriteString("try:\n" + Indent(h.classDefs(), 4) + "    ok = True\nexcept TypeError:\n    ok = False\n    _res.append(('class-creation', 'TypeError'))\n")
	sb.WriteString("if ok:\n")
	for _, a := range acc {
		sb.WriteString(Indent(a.code, 4))
	}
	sb.WriteString("    pass\n")
	return sb.String()
}

func c16Check(r *Run, h c16Hier, acc []c16Access, fail func()) {
	prog := c16Program(h, acc)
	d, err := PyDiff(prog, PyDiffOpts{Vars: c16Vars})
	if err != nil {
		r.Infra("%v", err)
	}
	multi := false
	for i := 0; i < h.n; i++ {
		if len(h.bases[i]) >= 2 {
			multi = true
		}
	}
	r.Count(prog, multi)
	// the two oracles must agree on acceptance (harness self-check)
	if d.O != nil {
		rejected := strings.Contains(d.O.Obs["_res"], "t["+encStr("class-creation")+","+encStr("TypeError")+"]")
		if rejected == h.consistent() {
			r.Infra("C3 model and CPython disagree on acceptance of:\n%s", h.classDefs())
		}
		if rejected {
			r.Class("rejected-hierarchy")
		} else if multi {
			r.Class("multiple-inheritance")
		}
	}
	if d.Sig == "" {
		return
	}
	if d.Var == "_res" && d.Index >= 0 {
		ga, oa := SplitTop(d.G.Obs["_res"]), SplitTop(d.O.Obs["_res"])
		seen := map[string]bool{}
		for i := 0; i < len(ga) && i < len(oa); i++ {
			if ga[i] == oa[i] {
				continue
			}
			tag := "?"
			if i < len(acc)+0 {
				// entries and accesses are not 1:1 (some accesses record several entries): find by label
			}
			parts := SplitTop(oa[i])
			label := ""
			if len(parts) > 0 {
				label = DecodeStr(parts[0])
			}
			for _, a := range acc {
				if strings.Contains(a.code, "rec('"+label+"'") {
					tag = a.tag
					break
				}
			}
			if label == "class-creation" {
				tag = "mro-acceptance"
			}
			if seen[tag] {
				continue
			}
			seen[tag] = true
			if !r.Mismatch(&Case{Kind: "pydiff", Sig: tag, Program: prog, Vars: c16Vars, Expected: oa[i], Actual: ga[i], Detail: "access " + label}) {
				fail()
			}
		}
		if len(ga) != len(oa) {
			if !r.Mismatch(&Case{Kind: "pydiff", Sig: "length:" + d.Sig, Program: prog, Vars: c16Vars, Expected: fmt.Sprint(len(oa)), Actual: fmt.Sprint(len(ga)) + " " + d.G.Exc + " " + d.G.ExcMsg}) {
				fail()
			}
		}
		return
	}
	if !r.Mismatch(&Case{Kind: "pydiff", Sig: d.Sig, Program: prog, Vars: c16Vars, Expected: d.Expected, Actual: d.Actual, Detail: d.Detail}) {
		fail()
	}
}

func TestC16(t *testing.T) {
	r := StartRun(t, "C16")
	defer r.Finish()
	r.Extra("rule", "exhaustive: every hierarchy of <=4 classes in which class i takes any ordered selection of <=3 earlier classes as bases (160 shapes, consistent and inconsistent), each with "+
		"a fixed rotating placement of x/m/cm/sm/__len__; rapid-drawn hierarchies of <=4 (thorough <=6) classes with random base orderings and placements, a quarter of the classes built by type(name, bases, ns) from a dict that also builds a twin class and is modified afterwards; for each, reads on instances "+
		"and classes, m/cm/sm calls through instance and class, isinstance for all pairs and tuples, getattr/hasattr forms, instance and class writes and deletes followed by re-reads "+
		"from every class and instance. Oracles: CPython (defining class name / exception class / TypeError at class creation) and a textbook C3 model for acceptance "+
		"(model/CPython disagreement = inconclusive). Non-trivial: some class has >=2 bases; distinct by program text.")
	r.Extra("assumptions", []string{"CPython 3.6 attribute lookup equals 3.4's"})
	r.ReplayKnown()
	if _, err := GetOracle(); err != nil {
		r.Infra("%v", err)
	}
	// exhaustive shapes with 4 classes
	if r.Shard == 0 {
		sel := [][]int{{}}
		var ordered func(pool []int, max int) [][]int
		ordered = func(pool []int, max int) [][]int {
			res := [][]int{{}}
			var rec func(cur []int)
			rec = func(cur []int) {
				if len(cur) >= max {
					return
				}
				for _, p := range pool {
					dup := false
					for _, c := range cur {
						if c == p {
							dup = true
						}
					}
					if dup {
						continue
					}
					nxt := append(append([]int(nil), cur...), p)
					res = append(res, nxt)
					rec(nxt)
				}
			}
			rec(nil)
			return res
		}
		_ = sel
		shape := 0
		for _, b1 := range ordered([]int{0}, 3) {
			for _, b2 := range ordered([]int{0, 1}, 3) {
				for _, b3 := range ordered([]int{0, 1, 2}, 3) {
					shape++
					h := c16Hier{n: 4, bases: [][]int{{}, b1, b2, b3}}
					names := []string{"x", "m", "cm", "sm", "len"}
					for i := 0; i < 4; i++ {
						var ds []string
						for k, nm := range names {
							if (shape+i*3+k*5)%3 != 0 {
								ds = append(ds, nm)
							}
						}
						h.defs = append(h.defs, ds)
					}
					acc := c16Accesses(r, nil, h, shape%4)
					c16Check(r, h, acc, func() {})
					r.Class("exhaustive-shape")
				}
			}
		}
		r.SetExhaustive(true)
	}
	rapid.Check(t, func(rt *rapid.T) {
		g := &G{T: rt}
		h := drawHier(g, r.Pick(4, 6))
		acc := c16Accesses(r, g, h, -1)
		r.Sample(h.classDefs(), h.classDefs())
		c16Check(r, h, acc, func() { rt.Fatalf("C16 mismatch") })
	})
}

//go:build verif

package harness

// C02 — control flow and exceptions take exactly Python's paths (DESIGN section 6).

import (
	"fmt"
	"strings"
	"testing"

	"pgregory.net/rapid"
)

const c02Prelude = `_log = []
_res = []
class UE(Exception):
    pass
class UE2(UE):
    def __init__(self, a):
        self.a = a
class UK(KeyError, UE):
    pass
class Mixin:
    tag = 'mixin'
class UM(Mixin, ValueError):
    pass
class UM2(Mixin, UE, IndexError):
    pass
class CMF:
    # a context manager whose __enter__ raises: __exit__ must not run
    def __init__(self, tag, sup):
        self.tag = tag
        self.sup = sup
    def __enter__(self):
        _log.append(self.tag + ':enter-raises')
        raise UE('enter')
    def __exit__(self, t, v, tb):
        _log.append(self.tag + ':exit')
        return self.sup
def rr(n):
    # re-raises the exception its caller is handling, from n frames further down
    _log.append('rr')
    if n > 0:
        rr(n - 1)
    raise
class CMX:
    # a context manager whose __exit__ raises: its exception replaces whatever was leaving the body
    def __init__(self, tag):
        self.tag = tag
    def __enter__(self):
        _log.append(self.tag + ':enter')
        return self
    def __exit__(self, t, v, tb):
        _log.append(self.tag + ':exit-raises')
        if t is None:
            _log.append('noexc')
        raise UE2(9)
class CM:
    def __init__(self, tag, sup):
        self.tag = tag
        self.sup = sup
    def __enter__(self):
        _log.append(self.tag + ':enter')
        return self
    def __exit__(self, t, v, tb):
        _log.append(self.tag + ':exit')
        if t is None:
            _log.append('noexc')
        return self.sup
`

const c02Drive = `def drive(k):
    _log.append('k')
    try:
        _res.append(fn(k))
    except UE2 as e:
        _res.append(('UE2', e.a))
    except UK:
        _res.append('UK')
    except UE:
        _res.append('UE')
    except ZeroDivisionError:
        _res.append('ZeroDivisionError')
    except IndexError:
        _res.append('IndexError')
    except KeyError:
        _res.append('KeyError')
    except LookupError:
        _res.append('LookupError')
    except ArithmeticError:
        _res.append('ArithmeticError')
    except UnboundLocalError:
        _res.append('UnboundLocalError')
    except NameError:
        _res.append('NameError')
    except AttributeError:
        _res.append('AttributeError')
    except TypeError:
        _res.append('TypeError')
    except ValueError:
        _res.append('ValueError')
    except RuntimeError:
        _res.append('RuntimeError')
    except Exception:
        _res.append('Exception')
    except BaseException:
        _res.append('BaseException')
`

type c02Gen struct {
	g        *G
	r        *Run
	id       int
	exits    int
	maxExit  int
	crosses  bool // an exit action sits inside a finally-protected / with / loop region
	maxDepth int
	kinds    map[string]bool
	helper   bool // a second generated function hp(k) exists and may be called from fn
	hcalls   int
}

type c02Ctx struct {
	depth     int
	inLoop    bool
	inFinally bool // directly inside a finally body (no continue allowed until a new loop)
	inHandler bool
	guarded   bool // inside try-finally, with or loop
}

func (c *c02Gen) nid() int { c.id++; return c.id }

var c02Raises = []string{"KeyError", "IndexError", "ZeroDivisionError", "ValueError", "TypeError", "KeyError('x')", "ValueError(1, 2)",
	"LookupError", "ArithmeticError", "Exception", "RuntimeError('r')", "BaseException", "UE", "UE('u')", "UE2(5)", "UK('k')", "UK", "UM('m')", "UM", "UM2(2)"}
var c02RaiseExprs = []string{"1 // 0", "[][0]", "{}['x']", "int('z')", "None.a", "undefined_name"}

func (c *c02Gen) exitAction(cx c02Ctx) string {
	if c.exits >= c.maxExit {
		return fmt.Sprintf("_log.append(%d)\n", c.nid())
	}
	c.exits++
	j := c.exits
	g := c.g
	var act string
	for act == "" {
		switch g.Weighted(4, 3, 2, 2, 2, 1) {
		case 0:
			act = "raise " + c02Raises[g.N(len(c02Raises))]
			c.kinds["raise"] = true
		case 1:
			act = fmt.Sprintf("return %d", 100+j)
			c.kinds["return"] = true
		case 2:
			if cx.inLoop {
				act = "break"
				c.kinds["break"] = true
			}
		case 3:
			if cx.inLoop && !cx.inFinally {
				act = "continue"
				c.kinds["continue"] = true
			}
		case 4:
			act = "_log.append(" + c02RaiseExprs[g.N(len(c02RaiseExprs))] + ")"
			c.kinds["raising-expr"] = true
		case 5:
			if cx.inHandler {
				act = "raise"
				c.kinds["bare-raise"] = true
				if g.Chance(1, 3) {
					// the bare raise sits in a called function: it re-raises what the calling frame is handling
					act = g.Str("rr(0)", "rr(1)")
					c.kinds["bare-raise-in-callee"] = true
				}
			}
		}
	}
	if cx.guarded {
		c.crosses = true
	}
	// exit j is taken when bit j-1 of k is set: one call can take several exits in a row
	// (an exception, then what its handler does, then what the finally body does)
	if g.Chance(1, 3) {
		// the exit on a line of its own: the raising statement is then the last instruction of its line, and the
		// traceback must still name that line, not the one after it
		c.kinds["exit-on-own-line"] = true
		if g.Bool() {
			// ... followed by a statement of the same block that is never reached
			return fmt.Sprintf("if k & %d:\n    %s\n    _log.append('unreached')\n", 1<<uint(j-1), act)
		}
		return fmt.Sprintf("if k & %d:\n    %s\n", 1<<uint(j-1), act)
	}
	return fmt.Sprintf("if k & %d: %s\n", 1<<uint(j-1), act)
}

func (c *c02Gen) block(cx c02Ctx, minStmts int) string {
	if cx.depth > c.maxDepth {
		c.maxDepth = cx.depth
	}
	g := c.g
	var sb strings.Builder
	n := g.Int(minStmts, 3)
	if n < 1 {
		n = 1
	}
	for i := 0; i < n; i++ {
		kind := 0
		hw := 0
		if c.helper && c.hcalls < 2 {
			hw = 2
		}
		if cx.depth < 4 {
			kind = g.Weighted(3, 4, 2, 1, 2, 4, 2, hw)
		} else {
			kind = g.Weighted(3, 4, 0, 0, 0, 0, 0, hw)
		}
		switch kind {
		case 0:
			fmt.Fprintf(&sb, "_log.append(%d)\n", c.nid())
		case 1:
			sb.WriteString(c.exitAction(cx))
		case 2: // for
			c.kinds["for"] = true
			v := fmt.Sprintf("i%d", c.nid())
			fmt.Fprintf(&sb, "for %s in range(2):\n", v)
			in := cx
			in.depth++
			in.inLoop, in.inFinally, in.guarded = true, false, true
			sb.WriteString(Indent(fmt.Sprintf("_log.append('%s')\n", v)+c.block(in, 1), 4))
			if g.Bool() {
				c.kinds["loop-else"] = true
				e := cx
				e.depth++
				sb.WriteString("else:\n" + Indent(c.block(e, 1), 4))
			}
		case 3: // while
			c.kinds["while"] = true
			v := fmt.Sprintf("c%d", c.nid())
			fmt.Fprintf(&sb, "%s = 0\nwhile %s < 2:\n", v, v)
			in := cx
			in.depth++
			in.inLoop, in.inFinally, in.guarded = true, false, true
			sb.WriteString(Indent(fmt.Sprintf("%s += 1\n_log.append('%s')\n", v, v)+c.block(in, 1), 4))
			if g.Bool() {
				c.kinds["loop-else"] = true
				e := cx
				e.depth++
				sb.WriteString("else:\n" + Indent(c.block(e, 1), 4))
			}
		case 4: // if
			c.kinds["if"] = true
			in := cx
			in.depth++
			fmt.Fprintf(&sb, "if k %% 2 == %d:\n", g.N(2))
			sb.WriteString(Indent(c.block(in, 1), 4))
			if g.Bool() {
				fmt.Fprintf(&sb, "elif k > %d:\n", g.N(4))
				sb.WriteString(Indent(c.block(in, 1), 4))
			}
			if g.Bool() {
				sb.WriteString("else:\n" + Indent(c.block(in, 1), 4))
			}
		case 5: // try
			c.kinds["try"] = true
			hasFinally := g.Chance(1, 2)
			nh := g.Int(0, 3)
			if nh == 0 {
				hasFinally = true
			}
			in := cx
			in.depth++
			if hasFinally {
				in.guarded = true
				c.kinds["finally"] = true
			}
			sb.WriteString("try:\n" + Indent(fmt.Sprintf("_log.append(%d)\n", c.nid())+c.block(in, 1), 4))
			bareUsed := false
			for h := 0; h < nh && !bareUsed; h++ {
				hc := in
				hc.inHandler = true
				var head string
				switch g.Weighted(3, 2, 2, 1, 1) {
				case 0:
					head = "except " + g.Str("KeyError", "IndexError", "ZeroDivisionError", "ValueError", "TypeError", "LookupError", "ArithmeticError", "Exception", "NameError", "AttributeError", "RuntimeError", "UE", "UE2", "UK", "UM", "UM2") + ":"
				case 1:
					head = "except (" + g.Str("KeyError", "IndexError", "ZeroDivisionError", "UE2") + ", " + g.Str("ValueError", "TypeError", "LookupError", "UK", "UM") + "):"
				case 2:
					head = "except " + g.Str("KeyError", "LookupError", "Exception", "ValueError", "BaseException", "UE") + " as e:"
					c.kinds["except-as"] = true
				case 3:
					head = "except BaseException:"
				default:
					if h == nh-1 {
						head = "except:"
						bareUsed = true
					} else {
						head = "except Exception:"
					}
				}
				hbody := fmt.Sprintf("_log.append(%d)\n", c.nid())
				if g.Chance(1, 4) {
					// a with block that sees an exception of its own while the handler's exception is being handled
					c.kinds["with-exception-inside-handler"] = true
					if g.Bool() {
						hbody += fmt.Sprintf("with CM('w%d', True):\n    raise UE('inner')\n", c.nid())
					} else {
						hbody += fmt.Sprintf("try:\n    with CM('w%d', False):\n        raise UE('inner')\nexcept UE:\n    _log.append(%d)\n", c.nid(), c.nid())
					}
				}
				hbody += c.block(hc, 0)
				if g.Chance(1, 4) {
					// ... and the handler's exception is re-raised afterwards
					c.kinds["bare-raise-at-end-of-handler"] = true
					hbody += "raise\n"
				}
				sb.WriteString(head + "\n" + Indent(hbody, 4))
			}
			if nh > 0 && g.Chance(1, 3) {
				c.kinds["try-else"] = true
				sb.WriteString("else:\n" + Indent(fmt.Sprintf("_log.append(%d)\n", c.nid())+c.block(in, 0), 4))
			}
			if hasFinally {
				fc := cx
				fc.depth++
				fc.inFinally = true
				fbody := fmt.Sprintf("_log.append('f%d')\n", c.nid())
				if g.Chance(1, 5) {
					// a loop of its own inside the finally body, whose continue/break go through a try/finally or with of their own,
					// while whatever brought control into this finally body (return, continue, break, an exception) is still pending
					c.kinds["loop-with-guarded-continue-in-finally"] = true
					v := fmt.Sprintf("j%d", c.nid())
					inner := fmt.Sprintf("try:\n    if %s == 0: continue\n    _log.append(%d)\n    if %s == 1: break\nfinally:\n    _log.append('f%d')\n", v, c.nid(), v, c.nid())
					if g.Bool() {
						inner = fmt.Sprintf("with CM('w%d', %s):\n    if %s == 0: continue\n    _log.append(%d)\n    if %s == 1: break\n", c.nid(), g.Str("False", "True"), v, c.nid(), v)
					}
					fbody += g.Str("for "+v+" in range(3):\n", v+" = -1\nwhile "+v+" < 2:\n    "+v+" += 1\n") + Indent(fmt.Sprintf("_log.append('%s')\n", v)+inner+c.exitAction(c02Ctx{depth: cx.depth + 2, inLoop: true, guarded: true}), 4)
					if g.Bool() {
						fbody += "else:\n" + Indent(fmt.Sprintf("_log.append(%d)\n", c.nid()), 4)
					}
				}
				sb.WriteString("finally:\n" + Indent(fbody+c.block(fc, 0), 4))
			}
		case 6: // with
			c.kinds["with"] = true
			in := cx
			in.depth++
			in.guarded = true
			sup := "False"
			if c.r.SwitchOn("c02.with.exit_truthy_nonbool") {
				sup = g.Str("False", "True", "0", "1", "None", "'yes'", "[]")
			} else {
				c.r.On("c02.with.exit_truthy_nonbool")
				sup = g.Str("False", "True", "None")
			}
			if g.Chance(1, 10) {
				c.kinds["with-exit-raises"] = true
				if g.Bool() {
					fmt.Fprintf(&sb, "with CMX('w%d'):\n", c.nid())
				} else {
					fmt.Fprintf(&sb, "with CM('w%d', %s), CMX('w%d'):\n", c.nid(), sup, c.nid())
				}
			} else if g.Chance(1, 8) {
				c.kinds["with-enter-raises"] = true
				fmt.Fprintf(&sb, "with %s('w%d', %s), %s('w%d', True) as m:\n", g.Str("CM", "CMF"), c.nid(), sup, g.Str("CMF", "CM", "CMF"), c.nid())
			} else if g.Chance(1, 3) {
				fmt.Fprintf(&sb, "with CM('w%d', %s), CM('w%d', %s) as m:\n", c.nid(), sup, c.nid(), g.Str("False", "True"))
			} else if g.Bool() {
				fmt.Fprintf(&sb, "with CM('w%d', %s) as m:\n", c.nid(), sup)
			} else {
				fmt.Fprintf(&sb, "with CM('w%d', %s):\n", c.nid(), sup)
			}
			sb.WriteString(Indent(c.block(in, 1), 4))
		case 7: // call of the second generated function: unwinding and tracebacks across frames
			c.hcalls++
			c.kinds["helper-call"] = true
			if cx.guarded {
				c.crosses = true
			}
			sb.WriteString("_log.append(hp(k))\n")
		}
	}
	return sb.String()
}

var c02Vars = []string{"_log", "_res"}

func TestC02(t *testing.T) {
	r := StartRun(t, "C02")
	defer r.Finish()
	r.Extra("rule", "random nestings (depth<=4) of for/while(+else), if/elif/else, try/except/else/finally (1-3 handlers: bare, class, tuple, as), with (1-2 managers, "+
		"generated __exit__ truthiness), with <=3 exit points (raise class/instance, return, break, continue, bare raise, raising expression) selected by a runtime input k; "+
		"the function is called for every k: exit j is taken when bit j-1 of k is set, so one call can take several exits in a row (an exception, then what its handler does, then what the finally body does). Oracle = CPython on (path log, return value/exception class) and, for the unwrapped call, exception class + traceback (function, line). "+
		"One program in three has a second generated function hp(k) with exits of its own, called from inside fn's blocks (unwinding and tracebacks across three frames); one with block in ten has a manager whose __exit__ raises. "+
		"Non-trivial: nesting depth>=2 with an exit action inside a finally-protected/with/loop region; distinct by program text.")
	r.Extra("assumptions", []string{"CPython 3.6 unwinding semantics equal 3.4's for the generated subset (no continue in finally)", "tracebacks compared as (function name, line) lists"})
	r.ReplayKnown()
	if _, err := GetOracle(); err != nil {
		r.Infra("%v", err)
	}
	rapid.Check(t, func(rt *rapid.T) {
		c := &c02Gen{g: &G{T: rt}, r: r, maxExit: 4, kinds: map[string]bool{}}
		helper := ""
		if c.g.Chance(1, 3) {
			// a second function with exits of its own (lower bits of k), called from inside fn's blocks
			c.maxExit = 2
			helper = "def hp(k):\n    _log.append('hp')\n" + Indent(c.block(c02Ctx{depth: 1}, 1), 4) + "    return 'hend'\n"
			c.maxExit = 4
			c.helper = true
		}
		body := c.block(c02Ctx{depth: 1}, 2)
		fn := helper + "def fn(k):\n" + Indent(body, 4) + "    return 'end'\n"
		prog := c02Prelude + fn + c02Drive + fmt.Sprintf("for k in range(%d):\n    drive(k)\n", 1<<uint(c.exits))
		nt := c.maxDepth >= 2 && c.crosses
		r.Count(fn, nt)
		for k := range c.kinds {
			r.Class(k)
		}
		r.Sample(fn, fn)
		d, err := PyDiff(prog, PyDiffOpts{Vars: c02Vars})
		if err != nil {
			r.Infra("%v", err)
		}
		if d.Sig != "" {
			if !r.Mismatch(&Case{Kind: "pydiff", Sig: d.Sig, Program: prog, Vars: c02Vars, Expected: d.Expected, Actual: d.Actual, Detail: d.Detail}) {
				rt.Fatalf("C02 mismatch %s", d.Sig)
			}
			return
		}
		// unwrapped call through an intermediate frame: class + traceback of the escaping exception
		k := c.g.Int(0, 1<<uint(c.exits)-1)
		prog2 := c02Prelude + fn + "def mid(k):\n    _log.append('mid')\n    return fn(k)\n" + fmt.Sprintf("_res.append(mid(%d))\n", k)
		d2, err := PyDiff(prog2, PyDiffOpts{Vars: c02Vars, CompareTB: true})
		if err != nil {
			r.Infra("%v", err)
		}
		r.Count(fmt.Sprintf("tb%d:%s", k, fn), nt && d2.O.ExcName() != "")
		if d2.O.ExcName() != "" {
			r.Class("escaping-exception")
		}
		if d2.Sig != "" {
			sig := "unwrapped:" + d2.Sig
			if !r.Mismatch(&Case{Kind: "pydiff", Sig: sig, Program: prog2, Vars: c02Vars, Args: map[string]interface{}{"tb": true}, Expected: d2.Expected, Actual: d2.Actual, Detail: d2.Detail}) {
				rt.Fatalf("C02 mismatch %s", sig)
			}
		}
	})
}

//go:build verif

package harness

// C14 — strings are code-point sequences; repr round-trips through eval (DESIGN section 6).

import (
	"fmt"
	"strings"
	"testing"
	"time"

	"github.com/go-python/gpython/py"
	"pgregory.net/rapid"
)

// 0x161 and 0x2020 end in the bytes of 'a' and ' ': a code point must never be taken for the ASCII character of its low byte
var c14Alphabet = []rune{'a', 'b', 0xe9, 0x20ac, 0x1f600, '\'', '"', '\\', '\n', 0, 0x7f, ' ', 0x161}

const c14Prelude = `_res = []
def t(f):
    try:
        return f()
    except IndexError:
        return 'IndexError'
    except ValueError:
        return 'ValueError'
    except TypeError:
        return 'TypeError'
    except OverflowError:
        return 'OverflowError'
    except Exception:
        return 'Exception'
def ops(s):
    _res.append((s, 'len', len(s)))
    _res.append((s, 'iter', [c for c in s], list(s)))
    _res.append((s, 'index', [t(lambda: s[i]) for i in [-4, -3, -2, -1, 0, 1, 2, 3]]))
    _res.append((s, 'slice', [s[a:b] for a in SL for b in SL]))
    _res.append((s, 'xslice', [s[::-1], s[::2], s[1::2], s[-1::-2], s[:-1:1], s[2:0:-1]]))
    _res.append((s, 'case', s.upper(), s.lower()))
    _res.append((s, 'strip', s.strip(), s.lstrip(), s.rstrip(), s.strip('a'), s.lstrip('ab'), s.rstrip('b '), t(lambda: s.strip(None))))
    _res.append((s, 'strip2', [(s.strip(c), s.lstrip(c), s.rstrip(c)) for c in STRIPS]))
    _res.append((s, 'split', s.split(), t(lambda: s.split('a')), t(lambda: s.split(' ')), t(lambda: s.split('a', 1)), t(lambda: s.split(None, 1)), t(lambda: s.split('ab')), t(lambda: s.split(''))))
    _res.append((s, 'splitmax', [t(lambda: s.split(sep, m)) for sep in (None, 'a', ' ', 'ab') for m in (-1, 0, 1, 2, True, False, -2, 2**64)]))
    _res.append((s, 'replacemax', [t(lambda: s.replace('a', 'Z', m)) for m in (-1, 0, 1, True, False, 2**64)]))
    _res.append((s, 'mul', s * 0, s * 2, 2 * s, s * -1, s * True, s * -2**63, t(lambda: s * 2**64 if s else 'OverflowError'), t(lambda: s[:0] * 2**64)))
    _res.append((s, 'join', s.join(['x', 'y', 'z']), s.join([]), s.join(['q']), ''.join([s, s]), t(lambda: s.join([1]))))
    _res.append((s, 'ord', [ord(c) for c in s], [chr(ord(c)) == c for c in s]))
    for sub in SUBS:
        _res.append((s, 'in', sub, sub in s, sub not in s))
        _res.append((s, 'find', sub, s.find(sub), s.count(sub), s.startswith(sub), s.endswith(sub)))
        _res.append((s, 'replace', sub, t(lambda: s.replace(sub, 'Z')), t(lambda: (s or sub) and s.replace(sub, 'Z', 1)), t(lambda: s.replace(sub, '')), t(lambda: s.replace(sub, 'ZZ', 0))))
def ops2(s):
    for sub in SUBS2:
        for a in RNG:
            _res.append((s, 'find2', sub, a, t(lambda: s.find(sub, a)), t(lambda: s.count(sub, a)), t(lambda: s.startswith(sub, a)), t(lambda: s.endswith(sub, a))))
            for b in RNG:
                _res.append((s, 'find3', sub, a, b, t(lambda: s.find(sub, a, b)), t(lambda: s.count(sub, a, b)), t(lambda: s.startswith(sub, a, b)), t(lambda: s.endswith(sub, a, b))))
def rt(x):
    r = repr(x)
    try:
        y = eval(r)
        _res.append(('rt', r, y == x, x == y))
    except Exception:
        _res.append(('rt', r, 'eval-failed'))
def cmp(a, b):
    _res.append((a, 'cmp', b, a == b, a != b, a < b, a <= b, a > b, a >= b))
SL = [None, -3, -1, 0, 1, 2, 4]
STRIPS = ['a', 'b', '\u00e9', '\u20ac', '\U0001f600', "'", '"', '\\', '\n', '\0', '\x7f', ' ', '\u0161', '\u2020', 'a\u0161', '\u00e9 ', '\0\n', '', 'ab \n', '\u0161\u20ac\U0001f600']
RNG = [None, -5, -2, -1, 0, 1, 2, 3, 5]
`

func c14Strings(maxLen int) []string {
	out := []string{""}
	prev := []string{""}
	for l := 1; l <= maxLen; l++ {
		var cur []string
		for _, p := range prev {
			for _, r := range c14Alphabet {
				cur = append(cur, p+string(r))
			}
		}
		out = append(out, cur...)
		prev = cur
	}
	return out
}

func c14List(ss []string) string {
	parts := make([]string, len(ss))
	for i, s := range ss {
		parts[i] = PyStr(s)
	}
	return "[" + strings.Join(parts, ", ") + "]"
}

var c14Vars = []string{"_res"}

// runC14 runs one program, counts its entries and reports the first diverging entry per op.
func runC14(r *Run, prog string, class string, viaAPI []string) {
	var setup func(ctx py.Context, mod *py.Module)
	if viaAPI != nil {
		// strings reach the program through the Go API, not through literal decoding
		setup = func(ctx py.Context, mod *py.Module) {
			l := py.NewList()
			for _, s := range viaAPI {
				l.Append(py.String(s))
			}
			mod.Globals["STRS"] = l
		}
	}
	d, err := PyDiff(prog, PyDiffOpts{Vars: c14Vars, Setup: setup})
	if err != nil {
		r.Infra("%v", err)
	}
	if d.O != nil {
		for _, e := range SplitTop(d.O.Obs["_res"]) {
			r.Count(e, strings.Contains(e[:minInt(len(e), 80)], ",") && !strings.HasPrefix(e, "t[s(),"))
		}
	}
	r.Class(class)
	if d.Sig == "" {
		return
	}
	if d.Var == "_res" && d.Index >= 0 {
		ga, oa := SplitTop(d.G.Obs["_res"]), SplitTop(d.O.Obs["_res"])
		seen := map[string]bool{}
		for i := 0; i < len(ga) && i < len(oa); i++ {
			if ga[i] == oa[i] {
				continue
			}
			parts := SplitTop(oa[i])
			op := "?"
			if len(parts) >= 2 {
				op = DecodeStr(parts[1])
				if DecodeStr(parts[0]) == "rt" {
					op = "rt"
				}
			}
			sig := class + ":" + op
			if seen[sig] {
				continue
			}
			seen[sig] = true
			subject := ""
			if len(parts) > 0 {
				subject = parts[0]
			}
			small := ""
			if op != "rt" && op != "cmp" && strings.HasPrefix(subject, "s(") {
				lit := PyStr(DecodeStr(subject))
				small = c14Prelude + "SUBS = ['', 'a', 'ab', '\\u00e9', '\\u20ac\\U0001f600', 'b\\u00e9', 'zz', \"'\", '\\\\']\nSUBS2 = ['', 'a', 'ab', '\\U0001f600']\nops(" + lit + ")\nops2(" + lit + ")\n"
			}
			if small == "" {
				small = prog
			}
			r.Mismatch(&Case{Kind: "pydiff", Sig: sig, Program: small, Vars: c14Vars, Expected: oa[i], Actual: ga[i], Detail: fmt.Sprintf("entry %d", i)})
		}
		if len(ga) != len(oa) {
			r.Mismatch(&Case{Kind: "pydiff", Sig: class + ":length:" + d.Sig, Program: prog, Vars: c14Vars, Expected: fmt.Sprint(len(oa)), Actual: fmt.Sprint(len(ga)) + " exc=" + d.G.Exc + " " + d.G.ExcMsg})
		}
		return
	}
	r.Mismatch(&Case{Kind: "pydiff", Sig: class + ":" + d.Sig, Program: prog, Vars: c14Vars, Expected: d.Expected, Actual: d.Actual, Detail: d.Detail})
}

func minInt(a, b int) int {
	if a < b {
		return a
	}
	return b
}

const c14Subs = "SUBS = ['', 'a', 'ab', '\\u00e9', '\\u20ac\\U0001f600', 'b\\u00e9', 'zz', \"'\", '\\\\']\nSUBS2 = ['', 'a', 'ab', '\\U0001f600']\n"

func TestC14(t *testing.T) {
	r := StartRun(t, "C14")
	defer r.Finish()
	r.Extra("rule", "all strings of length <=3 (thorough <=4) over {a, b, e-acute (2 bytes), euro (3), emoji (4), ', \", backslash, newline, NUL, DEL, space} x len/index/slice/iteration/"+
		"in/find/count/startswith/endswith (with every start/end in -5..5 for strings of length <=2)/split/join/strip/replace/upper/lower/repetition/ord/chr, all pairs of length <=2 (thorough; quick <=1 plus samples) under the six comparisons, "+
		"strings delivered both as \\u literals and through the Go API, rapid-drawn longer strings; repr round trip eval(repr(x)) == x for str, bytes, ints, floats and nested tuples/lists. "+
		"Oracle: CPython; for the round trip additionally the property's own statement inside gpython. Non-trivial: subject not the empty string; distinct by (subject, operation, arguments).")
	r.Extra("assumptions", []string{"CPython 3.6 str semantics equal 3.4's for the listed operations"})
	r.ReplayKnown()
	if _, err := GetOracle(); err != nil {
		r.Infra("%v", err)
	}
	maxLen := r.Pick(3, 4)
	strs := c14Strings(maxLen)
	const chunk = 150
	job := 0
	for i := 0; i < len(strs); i += chunk {
		job++
		if job%r.NShards != r.Shard {
			continue
		}
		j := minInt(i+chunk, len(strs))
		viaAPI := job%2 == 0
		var prog string
		if viaAPI {
			prog = c14Prelude + c14Subs + "for s in STRS:\n    ops(s)\n"
			// the oracle needs the same strings: literal form there (CPython's literal decoding is the reference)
			prog = c14Prelude + c14Subs + "try:\n    STRS\nexcept NameError:\n    STRS = " + c14List(strs[i:j]) + "\nfor s in STRS:\n    ops(s)\n"
			runC14(r, prog, "ops-api", strs[i:j])
		} else {
			prog = c14Prelude + c14Subs + "for s in " + c14List(strs[i:j]) + ":\n    ops(s)\n"
			runC14(r, prog, "ops", nil)
		}
		r.Sample(fmt.Sprint("ops", i), "ops("+PyStr(strs[i+(j-i)/2])+")")
	}
	// start/end arguments: all strings of length <= 2
	short := c14Strings(2)
	for i := 0; i < len(short); i += 40 {
		job++
		if job%r.NShards != r.Shard {
			continue
		}
		j := minInt(i+40, len(short))
		prog := c14Prelude + c14Subs + "for s in " + c14List(short[i:j]) + ":\n    ops2(s)\n"
		runC14(r, prog, "startend", nil)
	}
	// ... and strings of length 3 (quick: every 5th)
	{
		var three []string
		for i, s3 := range c14Strings(3) {
			if len([]rune(s3)) == 3 && (r.Thorough() || i%5 == int(r.Seed%5)) {
				three = append(three, s3)
			}
		}
		for i := 0; i < len(three); i += 40 {
			job++
			if job%r.NShards != r.Shard {
				continue
			}
			j := minInt(i+40, len(three))
			prog := c14Prelude + c14Subs + "RNG = [None, -2, 0, 1, 2, 3]\nfor s in " + c14List(three[i:j]) + ":\n    ops2(s)\n"
			runC14(r, prog, "startend3", nil)
		}
	}
	// comparisons between all pairs
	cmpSet := c14Strings(r.Pick(1, 2))
	if !r.Thorough() {
		cmpSet = append(cmpSet, "ab", "ba", "a\u00e9", "\u00e9a", "\U0001f600", "\u20ac\U0001f600", "a\x00", "\x00a", "aa", "a ")
	}
	for i := 0; i < len(cmpSet); i += 20 {
		job++
		if job%r.NShards != r.Shard {
			continue
		}
		j := minInt(i+20, len(cmpSet))
		prog := c14Prelude + "A = " + c14List(cmpSet[i:j]) + "\nB = " + c14List(cmpSet) + "\nfor a in A:\n    for b in B:\n        cmp(a, b)\n"
		runC14(r, prog, "cmp", nil)
	}
	// ord/chr across planes and at the error edges
	if r.Shard == 0 {
		prog := c14Prelude + "for n in [-1, 0, 1, 127, 128, 255, 256, 0x7ff, 0x800, 0xd7ff, 0xe000, 0xffff, 0x10000, 0x1f600, 0x10ffff, 0x110000]:\n" +
			"    _res.append((n, 'chr', t(lambda: ord(chr(n))), t(lambda: len(chr(n)))))\n" +
			"for s in ['', 'ab', '\\u20ac', '\\U0001f600', '\\u00e9x']:\n    _res.append((s, 'ordstr', t(lambda: ord(s))))\n"
		runC14(r, prog, "ordchr", nil)
		c14RoundTrip(r)
		c14CaseSweep(r)
		c14SpaceSweep(r)
	}
	// repr round trip over the code space: quick = the BMP and every 17th astral code point, thorough = everything
	{
		type span struct{ lo, hi, stride int }
		spans := []span{{0, 0x4000, 1}, {0x4000, 0x8000, 1}, {0x8000, 0xc000, 1}, {0xc000, 0x10000, 1}}
		if r.Thorough() {
			for lo := 0x10000; lo < 0x110000; lo += 0x8000 {
				spans = append(spans, span{lo, lo + 0x8000, 1})
			}
		} else {
			spans = append(spans, span{0x10000, 0x110000, 17}, span{0xe0000, 0xe1000, 1}, span{0x1f000, 0x20000, 1})
		}
		for _, sp := range spans {
			job++
			if job%r.NShards != r.Shard {
				continue
			}
			c14Sweep(r, sp.lo, sp.hi, sp.stride)
		}
	}
	r.SetExhaustive(true)
	// longer random strings
	rapid.Check(t, func(rt *rapid.T) {
		g := &G{T: rt}
		n := g.Int(4, 24)
		var sb strings.Builder
		for i := 0; i < n; i++ {
			if g.Chance(1, 6) {
				c := rune(g.Int(0x20, 0x17f)) // fence: case mappings beyond Latin Extended-A changed between Unicode versions
				if (c == 0xdf || c == 0x149 || c == 0x1f0 || c == 0x130) && !r.On("c14.case.multichar") {
					c = 'a' // upper()/lower() of these is more than one code point (known finding)
				}
				sb.WriteRune(c)
			} else {
				sb.WriteRune(c14Alphabet[g.N(len(c14Alphabet))])
			}
		}
		s := sb.String()
		// start/end arguments with substrings taken from the string itself
		rs := []rune(s)
		p1 := g.N(len(rs))
		p2 := minInt(len(rs), p1+g.Int(1, 3))
		subs2 := "SUBS2 = [" + PyStr(string(rs[p1:p2])) + ", " + PyStr(string(rs[g.N(len(rs))])) + ", " + PyStr(string(rs[len(rs)-1:])) + "]\nRNG = [None, " + fmt.Sprint(g.Int(-len(rs)-1, len(rs)+1)) + ", " + fmt.Sprint(g.Int(0, len(rs))) + ", " + fmt.Sprint(g.Int(1, 4)) + "]\n"
		prog := c14Prelude + c14Subs + subs2 + "ops(" + PyStr(s) + ")\nops2(" + PyStr(s) + ")\nrt(" + PyStr(s) + ")\n"
		before := r.Violations()
		runC14(r, prog, "random", nil)
		r.Sample("rnd"+s, "ops("+PyStr(s)+")")
		if r.Violations() > before {
			rt.Fatalf("C14 mismatch")
		}
	})
}

// c14RoundTrip: eval(repr(x)) == x inside gpython, and CPython evaluates gpython's repr text to x.
func c14RoundTrip(r *Run) {
	var vals []string
	for _, s := range c14Strings(2) {
		vals = append(vals, PyStr(s))
	}
	for b := 0; b < 256; b += 1 {
		vals = append(vals, fmt.Sprintf("b'\\x%02x'", b), fmt.Sprintf("b'a\\x%02xb'", b))
	}
	vals = append(vals, "b''", "b'\\'\"'", "0", "-1", "2**63", "-2**63", "2**64+1", "10**30", "-10**30", "True", "False", "None",
		"()", "(1,)", "(1, 2)", "[]", "[1]", "[[]]", "([],)", "((),)", "[(1,), (2, 3), []]", "(1, 'a', b'b', [2, ('c',)])", "[None, True, (False,)]",
		"('\\'',)", "['\"', '\\\\']", "(((1,),),)")
	if r.On("c14.roundtrip.float") {
		vals = append(vals, "0.0", "-0.0", "1.0", "0.5", "0.1", "1e16", "1e22", "1e-7", "1.5e300", "0.1 + 0.2", "1 / 3", "2.0 ** 53", "1e100", "123456789.123456789", "5e-324", "1.7976931348623157e308", "(0.1, [2.5])")
	}
	var sb strings.Builder
	sb.WriteString(c14Prelude)
	for _, v := range vals {
		sb.WriteString("rt(" + v + ")\n")
	}
	prog := sb.String()
	// the property's own statement: inside gpython
	g := RunProgram(prog, RunOpts{Vars: c14Vars})
	r.Class("roundtrip")
	if g.Panic != "" || g.Exc != "" || g.Timeout {
		r.Mismatch(&Case{Kind: "c14rt", Sig: "rt:run:" + g.Panic + g.Exc, Program: prog, Expected: "runs", Actual: g.Panic + g.Exc + " " + g.ExcMsg})
		return
	}
	els := SplitTop(g.Obs["_res"])
	if len(els) != len(vals) {
		r.Mismatch(&Case{Kind: "c14rt", Sig: "rt:count", Program: prog, Expected: fmt.Sprint(len(vals)), Actual: fmt.Sprint(len(els))})
		return
	}
	orc, _ := GetOracle()
	for i, e := range els {
		r.Count("rt:"+vals[i], true)
		parts := SplitTop(e)
		kind := c14RtKind(vals[i])
		if len(parts) != 4 || parts[2] != "T" || parts[3] != "T" {
			small := c14Prelude + "rt(" + vals[i] + ")\n"
			r.Mismatch(&Case{Kind: "c14rt", Sig: "rt:gpython:" + kind, Program: small, Expected: "t[s(rt),<repr>,T,T]", Actual: e, Detail: "eval(repr(" + vals[i] + ")) == x inside gpython"})
			continue
		}
		// CPython must evaluate gpython's repr text to the same value
		reprText := DecodeStr(parts[1])
		p2 := "_res = []\n_res.append((" + reprText + ") == (" + vals[i] + "))\n"
		resp, err := orc.Run(p2, c14Vars, "", "exec")
		if err != nil {
			r.Infra("%v", err)
		}
		if resp.Obs["_res"] != "l[T]" {
			small := c14Prelude + "rt(" + vals[i] + ")\n"
			r.Mismatch(&Case{Kind: "c14rt", Sig: "rt:cpython:" + kind, Program: small, Expected: "CPython evaluates gpython's repr to the value", Actual: "repr text " + reprText + " -> " + resp.Obs["_res"] + " exc=" + resp.ExcName(), Detail: vals[i]})
		}
	}
	r.Sample("rt", "rt("+vals[len(vals)/2]+")")
}

// c14Sweep: repr round trip of every code point in [lo, hi) taken stride apart, alone and followed by 'a1'
// (an escape must not swallow what follows it): inside gpython, and gpython's repr text evaluated by CPython.
func c14Sweep(r *Run, lo, hi, stride int) {
	prog := c14Prelude + fmt.Sprintf(`_bad = []
_reprs = []
_ns = []
for n in range(%d, %d, %d):
    if 0xd800 <= n < 0xe000:
        continue
    c = chr(n)
    r = repr(c)
    r2 = repr(c + 'a1')
    r3 = repr(('7' + c, [c]))
    if eval(r) != c or eval(r2) != c + 'a1' or eval(r3) != ('7' + c, [c]) or len(eval(r2)) != 3 or t(lambda: ord(c)) != n or len(c) != 1 or [x for x in c + 'z'] != [c, 'z'] or list(c + 'z') != [c, 'z']:
        _bad.append(n)
    _ns.append(n)
    _reprs.append(r2)
`, lo, hi, stride)
	g := RunProgram(prog, RunOpts{Vars: []string{"_bad", "_reprs", "_ns"}, Timeout: 120 * time.Second})
	r.Class("codepoint-sweep")
	if g.Panic != "" || g.Exc != "" || g.Timeout {
		r.Mismatch(&Case{Kind: "c14rt", Sig: "rt:sweep-run:" + g.Panic + g.Exc, Program: prog, Expected: "runs", Actual: g.Panic + g.Exc + " " + g.ExcMsg})
		return
	}
	ns := SplitTop(g.Obs["_ns"])
	for _, n := range ns {
		r.Count("sweep:"+n, true)
	}
	if bad := SplitTop(g.Obs["_bad"]); len(bad) > 0 {
		n := strings.TrimPrefix(bad[0], "i")
		small := c14Prelude + "rt(chr(" + n + "))\nrt(chr(" + n + ") + 'a1')\nrt(('7' + chr(" + n + "), [chr(" + n + ")]))\n"
		r.Mismatch(&Case{Kind: "c14rt", Sig: "rt:gpython:codepoint", Program: small, Expected: "eval(repr(x)) == x, ord(chr(n)) == n, len 1 and iteration by code point for every code point", Actual: fmt.Sprintf("%d code points fail, first U+%s (decimal)", len(bad), n),
			Detail: "eval(repr(chr(n) + 'a1')) inside gpython"})
		return
	}
	// CPython evaluates gpython's repr texts
	reprs := SplitTop(g.Obs["_reprs"])
	if len(reprs) != len(ns) {
		r.Infra("sweep: %d reprs for %d code points", len(reprs), len(ns))
	}
	var sb strings.Builder
	sb.WriteString("_res = []\nR = [")
	for i, e := range reprs {
		if i > 0 {
			sb.WriteString(", ")
		}
		sb.WriteString(PyStr(DecodeStr(e)))
	}
	sb.WriteString("]\nNS = [")
	for i, n := range ns {
		if i > 0 {
			sb.WriteString(", ")
		}
		sb.WriteString(strings.TrimPrefix(n, "i"))
	}
	sb.WriteString("]\nfor n, t in zip(NS, R):\n    try:\n        ok = eval(t) == chr(n) + 'a1'\n    except Exception:\n        ok = False\n    if not ok:\n        _res.append(n)\n")
	orc, err := GetOracle()
	if err != nil {
		r.Infra("%v", err)
	}
	resp, err := orc.Run(sb.String(), c14Vars, "", "exec")
	if err != nil {
		r.Infra("%v", err)
	}
	if resp.Obs["_res"] != "l[]" || resp.ExcName() != "" {
		first := ""
		if l := SplitTop(resp.Obs["_res"]); len(l) > 0 {
			first = strings.TrimPrefix(l[0], "i")
		}
		small := c14Prelude + "rt(chr(" + first + ") + 'a1')\n"
		r.Mismatch(&Case{Kind: "c14rt", Sig: "rt:cpython:codepoint", Program: small, Expected: "CPython evaluates gpython's repr of every code point to that code point",
			Actual: "failing code points (decimal): " + resp.Obs["_res"] + " exc=" + resp.ExcName()})
	}
	r.Sample("sweep", fmt.Sprintf("repr round trip of chr(n), chr(n)+'a1', ('7'+chr(n), [chr(n)]) for n in range(%d, %d, %d)", lo, hi, stride))
}

// c14CaseSweep: upper() and lower() of every code point against CPython. gpython's tables (the Go unicode package) are of a
// later Unicode version than CPython 3.6's: a mapping is fenced when the code point itself or
// a code point of its result is unassigned according to CPython's unicodedata; every mapping CPython has must be reproduced exactly.
// c14SpaceSweep: which code points are white space for split() and strip(), over every code point
func c14SpaceSweep(r *Run) {
	prog := `_res = []
for n in range(0x110000):
    if 0xd800 <= n < 0xe000:
        continue
    c = chr(n)
    w = 'a' + c + 'b'
    v = c + 'a' + c
    k = (len(w.split()) == 2) + 2 * (v.strip() == 'a') + 4 * (v.lstrip() == 'a' + c) + 8 * (v.rstrip() == c + 'a') + 16 * (len(w.split(None, 1)) == 2)
    if k:
        _res.append((n, k))
_res.append((chr(True), ord(chr(False))))
`
	d, err := PyDiff(prog, PyDiffOpts{Vars: c14Vars, Timeout: 120 * time.Second})
	if err != nil {
		r.Infra("%v", err)
	}
	r.Class("space-sweep")
	r.Count("space-sweep", true)
	if d.Sig != "" {
		r.Mismatch(&Case{Kind: "pydiff", Sig: "space-sweep:" + d.Sig, Program: prog, Vars: c14Vars, Expected: d.Expected, Actual: d.Actual, Detail: d.Detail})
	}
	r.Sample("space-sweep", "split()/strip()/lstrip()/rstrip() around chr(n) for every code point n")
}

func c14CaseSweep(r *Run) {
	prog := `_res = []
for n in range(0x110000):
    if 0xd800 <= n < 0xe000:
        continue
    c = chr(n)
    u = c.upper()
    l = c.lower()
    if u != c or l != c:
        _res.append((n, [ord(x) for x in u], [ord(x) for x in l]))
`
	g := RunProgram(prog, RunOpts{Vars: c14Vars, Timeout: 120 * time.Second})
	r.Class("case-sweep")
	if g.Panic != "" || g.Exc != "" || g.Timeout {
		r.Mismatch(&Case{Kind: "c14rt", Sig: "case-sweep-run:" + g.Panic + g.Exc, Program: prog, Expected: "runs", Actual: g.Panic + g.Exc + " " + g.ExcMsg})
		return
	}
	entries := SplitTop(g.Obs["_res"])
	var sb strings.Builder
	sb.WriteString("import unicodedata\nG = {")
	for _, e := range entries {
		p := SplitTop(e) // t[in,l[...],l[...]]
		if len(p) != 3 {
			r.Infra("case sweep: bad entry %q", e)
		}
		conv := func(l string) string {
			var xs []string
			for _, x := range SplitTop(l) {
				xs = append(xs, strings.TrimPrefix(x, "i"))
			}
			return "[" + strings.Join(xs, ", ") + "]"
		}
		sb.WriteString(strings.TrimPrefix(p[0], "i") + ": (" + conv(p[1]) + ", " + conv(p[2]) + "), ")
		r.Count("case:"+p[0], true)
	}
	sb.WriteString(`}
_res = []
_fenced = []
def new(xs):
    return any(unicodedata.category(chr(x)) == 'Cn' for x in xs)
for n in range(0x110000):
    if 0xd800 <= n < 0xe000:
        continue
    c = chr(n)
    want = ([ord(x) for x in c.upper()], [ord(x) for x in c.lower()])
    got = G.get(n, ([n], [n]))
    got = (list(got[0]), list(got[1]))
    if got != want:
        if unicodedata.category(c) == 'Cn':
            _fenced.append(n)
        elif (got[0] != want[0] and not new(got[0])) or (got[1] != want[1] and not new(got[1])):
            _res.append((n, want, got))
        else:
            _fenced.append(n)
`)
	orc, err := GetOracle()
	if err != nil {
		r.Infra("%v", err)
	}
	resp, err := orc.Run(sb.String(), []string{"_res", "_fenced"}, "", "exec")
	if err != nil {
		r.Infra("%v", err)
	}
	for range SplitTop(resp.Obs["_fenced"]) {
		r.Fenced("case-mapping-of-later-unicode-version")
	}
	if resp.Obs["_res"] != "l[]" || resp.ExcName() != "" {
		first := resp.Obs["_res"]
		if len(first) > 300 {
			first = first[:300]
		}
		small := "_res = []\n_res.append(([ord(x) for x in chr(N).upper()], [ord(x) for x in chr(N).lower()]))\n"
		if l := SplitTop(resp.Obs["_res"]); len(l) > 0 {
			if p := SplitTop(l[0]); len(p) > 0 {
				small = strings.ReplaceAll(small, "N", strings.TrimPrefix(p[0], "i"))
			}
		}
		r.Mismatch(&Case{Kind: "pydiff", Sig: "case-sweep:mapping", Program: small, Vars: c14Vars, Expected: "CPython's upper()/lower() of every code point (mappings into code points of a later Unicode version fenced)", Actual: first + " exc=" + resp.ExcName()})
	}
	r.Sample("case-sweep", "chr(n).upper(), chr(n).lower() for every code point n")
}

func c14RtKind(v string) string {
	switch {
	case strings.Contains(v, "float("):
		return "float"
	case strings.HasPrefix(v, "b'"):
		return "bytes"
	case strings.HasPrefix(v, "'"):
		return "str"
	case strings.ContainsAny(v, "([") && strings.Contains(v, "."):
		return "nested-float"
	case strings.ContainsAny(v, "(["):
		return "nested"
	case strings.ContainsAny(v, ".e/") || strings.Contains(v, "float"):
		return "float"
	}
	return "int"
}

func init() {
	replayers["c14rt"] = func(c *Case) (string, string, error) {
		g := RunProgram(c.Program, RunOpts{Vars: c14Vars})
		if g.Panic != "" || g.Exc != "" {
			return "rt:run", g.Panic + g.Exc, nil
		}
		for _, e := range SplitTop(g.Obs["_res"]) {
			parts := SplitTop(e)
			if len(parts) != 4 || parts[2] != "T" || parts[3] != "T" {
				return "rt:gpython", e, nil
			}
			orc, err := GetOracle()
			if err != nil {
				return "", "", err
			}
			// the value expression is the argument of rt( ... ) on the last line
			lines := strings.Split(strings.TrimSpace(c.Program), "\n")
			last := lines[len(lines)-1]
			val := strings.TrimSuffix(strings.TrimPrefix(last, "rt("), ")")
			resp, err := orc.Run("_res = []\n_res.append(("+DecodeStr(parts[1])+") == ("+val+"))\n", c14Vars, "", "exec")
			if err != nil {
				return "", "", err
			}
			if resp.Obs["_res"] != "l[T]" {
				return "rt:cpython", DecodeStr(parts[1]), nil
			}
		}
		return "", "", nil
	}
}

//go:build verif

package harness

import (
	"bufio"
	"encoding/json"
	"fmt"
	"os"
	"os/exec"
	"path/filepath"
	"sync"
)

// OracleResp is the reply of oracle_server.py to a "run" request.
type OracleResp struct {
	Exc     *string           `json:"exc"`
	Excs    []string          `json:"excs"`
	Compile bool              `json:"compile"`
	TB      [][2]interface{}  `json:"tb"`
	Obs     map[string]string `json:"obs"`
	Stdout  string            `json:"stdout"`
	Value   *string           `json:"value"`
	Error   string            `json:"error"`
	// ast / compile / complete / version
	OK      bool    `json:"ok"`
	Tree    *string `json:"tree"`
	Fenced  string  `json:"fenced"`
	Msg     string  `json:"msg"`
	Status  string  `json:"status"`
	Version string  `json:"version"`
}

func (r *OracleResp) ExcName() string {
	if r.Exc == nil {
		return ""
	}
	return *r.Exc
}

func (r *OracleResp) TBEntries() []TBEntry {
	var out []TBEntry
	for _, e := range r.TB {
		name, _ := e[0].(string)
		ln, _ := e[1].(float64)
		out = append(out, TBEntry{name, int(ln)})
	}
	return out
}

// Oracle is a persistent CPython subprocess.
type Oracle struct {
	mu      sync.Mutex
	cmd     *exec.Cmd
	in      *bufio.Writer
	out     *bufio.Reader
	Version string
	Path    string
}

var oracleCandidates = []string{
	"/root/.pyenv/versions/3.6.15/bin/python3.6",
	"/root/.pyenv/versions/3.7.16/bin/python3.7",
}

// VerifRoot returns the /verif directory (env VERIF_ROOT or default).
func VerifRoot() string {
	if r := os.Getenv("VERIF_ROOT"); r != "" {
		return r
	}
	return "/verif"
}

var (
	oracleOnce sync.Once
	oracleInst *Oracle
	oracleErr  error
)

// GetOracle returns the shared oracle, starting it on first use.
func GetOracle() (*Oracle, error) {
	oracleOnce.Do(func() {
		oracleInst, oracleErr = startOracle()
	})
	return oracleInst, oracleErr
}

func startOracle() (*Oracle, error) {
	script := filepath.Join(VerifRoot(), "oracle", "oracle_server.py")
	cands := oracleCandidates
	if p := os.Getenv("VERIF_ORACLE_PY"); p != "" {
		cands = []string{p}
	}
	var lastErr error
	for _, c := range cands {
		if _, err := os.Stat(c); err != nil {
			lastErr = err
			continue
		}
		cmd := exec.Command(c, "-S", "-E", script)
		cmd.Stderr = os.Stderr
		cmd.Dir = os.TempDir()
		stdin, err := cmd.StdinPipe()
		if err != nil {
			lastErr = err
			continue
		}
		stdout, err := cmd.StdoutPipe()
		if err != nil {
			lastErr = err
			continue
		}
		if err := cmd.Start(); err != nil {
			lastErr = err
			continue
		}
		o := &Oracle{cmd: cmd, in: bufio.NewWriterSize(stdin, 1<<20), out: bufio.NewReaderSize(stdout, 1<<20), Path: c}
		resp, err := o.call(map[string]interface{}{"op": "version"})
		if err != nil {
			lastErr = err
			continue
		}
		o.Version = resp.Version
		return o, nil
	}
	return nil, fmt.Errorf("no oracle interpreter could be started: %v", lastErr)
}

func (o *Oracle) call(req map[string]interface{}) (*OracleResp, error) {
	o.mu.Lock()
	defer o.mu.Unlock()
	b, err := json.Marshal(req)
	if err != nil {
		return nil, err
	}
	if _, err := o.in.Write(append(b, '\n')); err != nil {
		return nil, err
	}
	if err := o.in.Flush(); err != nil {
		return nil, err
	}
	line, err := o.out.ReadBytes('\n')
	if err != nil {
		return nil, fmt.Errorf("oracle died: %v", err)
	}
	var resp OracleResp
	if err := json.Unmarshal(line, &resp); err != nil {
		return nil, fmt.Errorf("oracle reply: %v: %.200s", err, line)
	}
	if resp.Error != "" {
		return nil, fmt.Errorf("%s", resp.Error)
	}
	return &resp, nil
}

// Run executes a program in CPython.
func (o *Oracle) Run(src string, vars []string, path string, mode string) (*OracleResp, error) {
	req := map[string]interface{}{"op": "run", "src": src, "vars": vars, "mode": mode}
	if path != "" {
		req["path"] = path
	}
	return o.call(req)
}

func (o *Oracle) RunArgv(src string, vars []string, path string, argv []string) (*OracleResp, error) {
	req := map[string]interface{}{"op": "run", "src": src, "vars": vars, "mode": "exec", "argv": argv}
	if path != "" {
		req["path"] = path
	}
	return o.call(req)
}

func (o *Oracle) AST(src, mode string) (*OracleResp, error) {
	return o.call(map[string]interface{}{"op": "ast", "src": src, "mode": mode})
}

func (o *Oracle) Compile(src, mode string) (*OracleResp, error) {
	return o.call(map[string]interface{}{"op": "compile", "src": src, "mode": mode})
}

func (o *Oracle) Complete(src string) (*OracleResp, error) {
	return o.call(map[string]interface{}{"op": "complete", "src": src})
}

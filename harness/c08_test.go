//go:build verif

package harness

// C08 — contexts are isolated and safe to run concurrently (DESIGN section 6).

import (
	"fmt"
	"os"
	"path/filepath"
	"sort"
	"strings"
	"sync"
	"sync/atomic"
	"testing"

	"github.com/go-python/gpython/py"
	"github.com/go-python/gpython/repl"
	"github.com/go-python/gpython/vm"
	"pgregory.net/rapid"
)

// c08Program generates one program (a list of top-level statements) that mutates every piece of
// per-context state it can reach, using its own identity id, and finally records its view.
func c08Program(r *Run, g *G, id int, hostile bool) []string {
	var st []string
	add := func(s string) { st = append(st, s) }
	add("import sys")
	add("import math")
	add("import time")
	add("import builtins")
	// contexts made without search paths (see c08NewCtx) find the shared source module this way
	add("if C08DIR not in sys.path:\n    sys.path.append(C08DIR)")
	add("import shared_mod")
	cands := []string{
		fmt.Sprintf("X = %d", id),
		fmt.Sprintf("sys.path.append('p%d')", id),
		fmt.Sprintf("sys.argv = ['prog%d']", id),
		fmt.Sprintf("sys.myattr = %d", id),
		fmt.Sprintf("math.verif = %d", id),
		fmt.Sprintf("math.pi = %d", id),
		fmt.Sprintf("time.verif = [%d]", id),
		fmt.Sprintf("shared_mod.counter = shared_mod.counter + %d", id),
		fmt.Sprintf("shared_mod.items.append(%d)", id),
		fmt.Sprintf("builtins.myname = %d", id),
		fmt.Sprintf("builtins.len = lambda x: %d", id),
		fmt.Sprintf("abs = lambda x: %d", id),
		fmt.Sprintf("class K:\n    attr = %d", id),
		fmt.Sprintf("def f(a=[]):\n    a.append(%d)\n    return a", id),
		fmt.Sprintf("sys.path = ['only%d']", id),
		fmt.Sprintf("del builtins.divmod"),
		fmt.Sprintf("sys.modules_probe = %d", id),
		// errors of compilation are objects too: one context's SyntaxError must not turn into another's
		fmt.Sprintf("try:\n    compile('x%d = (\\n', 'file%d', 'exec')\nexcept SyntaxError as _e:\n    ERR1 = _e", id, id),
		fmt.Sprintf("try:\n    eval('\\n' * %d + '%d +* 2')\nexcept SyntaxError as _e:\n    ERR2 = _e", id%7, id),
		fmt.Sprintf("try:\n    exec('def f%d(:\\n  pass\\n')\nexcept SyntaxError as _e:\n    ERR3 = _e", id),
		// ... and so are the exceptions the runtime raises: an attribute put on a caught one stays in this context
		fmt.Sprintf("try:\n    1 / 0\nexcept ZeroDivisionError as _e:\n    _e.tag = %d", id),
		fmt.Sprintf("try:\n    1.5 %% 0\nexcept ZeroDivisionError as _e:\n    _e.tag = %d\n    _e.args = (%d,)", id, id),
		fmt.Sprintf("try:\n    1 << -1\nexcept ValueError as _e:\n    _e.tag = %d", id),
		fmt.Sprintf("try:\n    math.sqrt(-1)\nexcept ValueError as _e:\n    _e.tag = %d", id),
		fmt.Sprintf("try:\n    float(2 ** 2000)\nexcept OverflowError as _e:\n    _e.tag = %d", id),
	}
	// every global of every module implemented in Go whose value is a mutable container (os.environ, sys.path, ...): a program
	// changes it in place; each context must have a container of its own
	for _, cg := range c08ContainerGlobals() {
		add("import " + cg.mod)
		if cg.dict {
			cands = append(cands, fmt.Sprintf("%s.%s['verif_%d'] = '%d'", cg.mod, cg.name, id, id))
		} else {
			cands = append(cands, fmt.Sprintf("%s.%s.append('verif_%d')", cg.mod, cg.name, id))
		}
	}
	if hostile {
		cands = append(cands, fmt.Sprintf("try:\n    list.foo = %d\nexcept TypeError:\n    pass", id), fmt.Sprintf("try:\n    int.x = %d\nexcept TypeError:\n    pass", id),
			fmt.Sprintf("try:\n    KeyError.y = %d\nexcept TypeError:\n    pass", id))
	}
	n := g.Int(3, len(cands))
	used := map[int]bool{}
	for i := 0; i < n; i++ {
		k := g.N(len(cands))
		if used[k] {
			continue
		}
		used[k] = true
		add(cands[k])
	}
	// the view: everything another program could have touched, observed defensively
	view := `_res = []
def _see(f):
    try:
        _res.append(f())
    except NameError:
        _res.append('NameError')
    except AttributeError:
        _res.append('AttributeError')
    except Exception:
        _res.append('Exception')
def _caught(f, cls):
    try:
        f()
    except cls as e:
        return (getattr(e, 'tag', None), e.args)`
	add(view)
	for _, e := range []string{"X", "sys.path", "sys.argv", "sys.myattr", "math.verif", "math.pi > 3 and math.pi < 4 or math.pi", "time.verif", "shared_mod.counter", "shared_mod.items",
		"builtins.myname", "myname", "len([1, 2])", "abs(-3)", "K.attr", "f()", "divmod(7, 2)", "sys.modules_probe", "list.foo", "int.x", "(5).x", "KeyError.y", "[].foo",
		"_caught(lambda: 1 / 0, ZeroDivisionError)", "_caught(lambda: 1.5 % 0, ZeroDivisionError)", "_caught(lambda: 1 << -1, ValueError)", "_caught(lambda: math.sqrt(-1), ValueError)",
		"_caught(lambda: float(2 ** 2000), OverflowError)", "_caught(lambda: 2.5 // 0, ZeroDivisionError)", "_caught(lambda: divmod(3, 0), ZeroDivisionError)",
		"(ERR1.filename, ERR1.lineno, ERR1.offset, ERR1.msg, ERR1.args)", "(ERR2.filename, ERR2.lineno, ERR2.offset, ERR2.msg)", "(ERR3.filename, ERR3.lineno, ERR3.msg, ERR1 is ERR3, ERR2 is ERR3)"} {
		add("_see(lambda: " + e + ")")
	}
	for _, cg := range c08ContainerGlobals() {
		if cg.dict {
			add(fmt.Sprintf("_see(lambda: sorted([k for k in %s.%s.keys() if k[:6] == 'verif_']))", cg.mod, cg.name))
		} else {
			add(fmt.Sprintf("_see(lambda: [e for e in %s.%s if str(e)[:6] == 'verif_'])", cg.mod, cg.name))
		}
	}
	return st
}

type c08ContainerGlobal struct {
	mod, name string
	dict      bool
}

var (
	c08ContainersOnce sync.Once
	c08Containers     []c08ContainerGlobal
)

// c08ContainerGlobals discovers, in a scratch context, the container-valued globals of the modules implemented in Go
func c08ContainerGlobals() []c08ContainerGlobal {
	c08ContainersOnce.Do(func() {
		ctx, _ := NewCtx(nil, nil)
		defer ctx.Close()
		for _, name := range []string{"sys", "os", "math", "time", "string", "binascii", "array", "glob", "tempfile", "marshal"} {
			if code, err := py.Compile("import "+name+"\n", "<probe>", py.ExecMode, 0, true); err == nil {
				g := py.NewStringDict()
				ctx.RunCode(code, g, g, nil)
			}
			m, err := ctx.GetModule(name)
			if err != nil || m == nil {
				continue
			}
			var keys []string
			for k := range m.Globals {
				keys = append(keys, k)
			}
			sort.Strings(keys)
			for _, k := range keys {
				if strings.HasPrefix(k, "__") || (name == "sys" && (k == "path" || k == "argv" || k == "modules")) {
					continue
				}
				switch m.Globals[k].(type) {
				case py.StringDict:
					c08Containers = append(c08Containers, c08ContainerGlobal{name, k, true})
				case *py.List:
					c08Containers = append(c08Containers, c08ContainerGlobal{name, k, false})
				}
			}
		}
	})
	return c08Containers
}

var c08ModSeq int

type c08Ctx struct {
	ctx py.Context
	mod *py.Module
}

func c08NewCtx(dir string, id int) (*c08Ctx, error) {
	// context options vary with the program's identity: two thirds of the contexts are made with no
	// search paths and no arguments (ContextOpts{}), the rest with both
	paths, args := []string{dir}, []string{fmt.Sprintf("initial%d", id)}
	if (id/11)%3 != 0 {
		paths, args = nil, nil
	}
	ctx, _ := NewCtx(paths, args)
	mod, err := ctx.Store().NewModule(ctx, &py.ModuleImpl{Info: py.ModuleInfo{FileDesc: "<c08>"}})
	if err != nil {
		return nil, err
	}
	mod.Globals["C08DIR"] = py.String(dir)
	return &c08Ctx{ctx, mod}, nil
}

func (c *c08Ctx) runStmt(src string) string {
	code, err := py.Compile(src+"\n", "<c08>", py.ExecMode, 0, true)
	if err != nil {
		cls, _ := ErrClass(err)
		return "compile:" + cls
	}
	var res string
	pclass, ptop, _ := Protect(func() {
		_, err := c.ctx.RunCode(code, c.mod.Globals, c.mod.Globals, nil)
		if err != nil {
			res, _ = ErrClass(err)
		}
	})
	if pclass != "" {
		return "panic:" + ptop + ":" + pclass
	}
	return res
}

func (c *c08Ctx) view() string {
	if o, ok := c.mod.Globals["_res"]; ok {
		return Enc(o)
	}
	return "<no _res>"
}

func c08Dir(r *Run) string {
	dir := filepath.Join(r.OutDir, "c08mods")
	os.MkdirAll(dir, 0o755)
	os.WriteFile(filepath.Join(dir, "shared_mod.py"), []byte("counter = 0\nitems = []\n"), 0o644)
	return dir
}

// solo runs one program alone, statement by statement
func c08Solo(dir string, id int, prog []string) (string, []string) {
	c, err := c08NewCtx(dir, id)
	if err != nil {
		return "ctx:" + err.Error(), nil
	}
	defer c.ctx.Close()
	var errs []string
	for _, s := range prog {
		errs = append(errs, c.runStmt(s))
	}
	return c.view(), errs
}

func c08NT(progs [][]string) bool {
	// two programs write the same piece of state
	seen := map[string]int{}
	for _, p := range progs {
		for _, s := range p {
			key := s
			if i := strings.IndexAny(s, "=("); i > 0 {
				key = strings.TrimSpace(s[:i])
			}
			if !strings.HasPrefix(s, "import") && !strings.HasPrefix(s, "_see") && !strings.HasPrefix(s, "_res") {
				seen[key]++
			}
		}
	}
	for _, n := range seen {
		if n >= 2 {
			return true
		}
	}
	return false
}

func TestC08(t *testing.T) {
	r := StartRun(t, "C08")
	defer r.Finish()
	r.Extra("rule", "sets of 2-4 generated programs that mutate the per-context state a program can reach (module globals, attributes on sys/math/time and on a source module, sys.path/sys.argv "+
		"mutation and rebinding, builtins attributes and rebinding/deleting builtin names, class attributes, mutable defaults, and - hostile - attributes on built-in types) and then record their "+
		"view; oracle: each program's view when run alone in a fresh context. Phase 1 executes the programs one statement at a time in separate contexts following a rapid-drawn interleaving. "+
		"Phase 2 (race-detector build) runs them on real goroutines released by a barrier, runs one code object in 16 contexts at once, and drives two REPLs concurrently; a race report fails "+
		"the case. Non-trivial: two programs of the set write the same piece of state; distinct by the program set + schedule.")
	r.Extra("assumptions", []string{"data races are observed only on the schedules the Go runtime takes under -race (sampling strength)"})
	r.ReplayKnown()
	dir := c08Dir(r)
	rapid.Check(t, func(rt *rapid.T) {
		g := &G{T: rt}
		k := g.Int(2, 4)
		hostile := g.Chance(1, 2)
		var progs [][]string
		for i := 0; i < k; i++ {
			progs = append(progs, c08Program(r, g, (i+1)*11, hostile))
		}
		solo := make([]string, k)
		for i := range progs {
			solo[i], _ = c08Solo(dir, (i+1)*11, progs[i])
		}
		// interleaved, statement by statement
		ctxs := make([]*c08Ctx, k)
		for i := range ctxs {
			c, err := c08NewCtx(dir, (i+1)*11)
			if err != nil {
				r.Infra("%v", err)
			}
			ctxs[i] = c
		}
		pos := make([]int, k)
		var sched []int
		remaining := 0
		for _, p := range progs {
			remaining += len(p)
		}
		for remaining > 0 {
			i := g.N(k)
			for pos[i] >= len(progs[i]) {
				i = (i + 1) % k
			}
			ctxs[i].runStmt(progs[i][pos[i]])
			pos[i]++
			remaining--
			sched = append(sched, i)
		}
		text := fmt.Sprint(progs, sched)
		r.Count(text, c08NT(progs))
		if hostile {
			r.Class("hostile")
		}
		r.Class(fmt.Sprintf("%d-contexts", k))
		r.Sample(text, map[string]interface{}{"programs": progs, "schedule": sched})
		for i := range ctxs {
			got := ctxs[i].view()
			ctxs[i].ctx.Close()
			if got != solo[i] {
				idx, a, b := FirstDiff(got, solo[i])
				what := "?"
				views := []string{"X", "sys.path", "sys.argv", "sys.myattr", "math.verif", "math.pi", "time.verif", "shared_mod.counter", "shared_mod.items", "builtins.myname", "myname", "len", "abs", "K.attr", "f()",
					"divmod", "sys.modules_probe", "list.foo", "int.x", "(5).x", "KeyError.y", "[].foo"}
				if idx >= 0 && idx < len(views) {
					what = views[idx]
				}
				if !r.Mismatch(&Case{Kind: "c08", Sig: "leak:" + what, Args: map[string]interface{}{"programs": progs, "schedule": sched}, Program: strings.Join(progs[i], "\n"),
					Expected: b, Actual: a, Detail: fmt.Sprintf("program %d of %d sees %s differently when interleaved with the others (schedule %v)", i, k, what, sched)}) {
					rt.Fatalf("C08 isolation violation")
				}
				return
			}
		}
	})
}

// TestC08Race: real goroutines under the race detector
func TestC08Race(t *testing.T) {
	r := StartRun(t, "C08")
	defer r.Finish()
	dir := c08Dir(r)
	rapid.Check(t, func(rt *rapid.T) {
		g := &G{T: rt}
		k := g.Int(2, 6)
		hostile := g.Chance(1, 2)
		var progs [][]string
		for i := 0; i < k; i++ {
			progs = append(progs, c08Program(r, g, (i+1)*11, hostile))
		}
		solo := make([]string, k)
		for i := range progs {
			solo[i], _ = c08Solo(dir, (i+1)*11, progs[i])
		}
		text := fmt.Sprint(progs)
		r.Count("race:"+text, c08NT(progs))
		r.Class("concurrent-contexts")
		for rep := 0; rep < 5; rep++ {
			got := make([]string, k)
			var wg sync.WaitGroup
			start := make(chan struct{})
			for i := range progs {
				wg.Add(1)
				go func(i int) {
					defer wg.Done()
					c, err := c08NewCtx(dir, (i+1)*11)
					if err != nil {
						got[i] = "ctx:" + err.Error()
						return
					}
					<-start
					for _, s := range progs[i] {
						c.runStmt(s)
					}
					got[i] = c.view()
					c.ctx.Close()
				}(i)
			}
			close(start)
			wg.Wait()
			for i := range progs {
				if got[i] != solo[i] {
					if !r.Mismatch(&Case{Kind: "c08", Sig: "concurrent-leak", Args: map[string]interface{}{"programs": progs}, Program: strings.Join(progs[i], "\n"), Expected: solo[i], Actual: got[i],
						Detail: fmt.Sprintf("program %d of %d run concurrently (history: all programs started together, repetition %d)", i, k, rep)}) {
						rt.Fatalf("C08 concurrent isolation violation")
					}
					return
				}
			}
		}
		// the exception objects two contexts get for the same failing steps are never the same objects
		{
			fz := &c10Fz{g: &G{T: rt}, kinds: map[string]bool{}, recursive: true}
			var sb strings.Builder
			sb.WriteString(c10FuzzPrelude + "def rec(n):\n    return rec(n + 1)\nERRS = []\n")
			nst := fz.g.Int(3, 10)
			for i := 0; i < nst; i++ {
				st := fz.stmt()
				if fz.g.Chance(1, 25) {
					st = "rec(0)"
				}
				sb.WriteString("try:\n" + Indent(st, 4))
				if !strings.HasSuffix(st, "\n") {
					sb.WriteString("\n")
				}
				sb.WriteString("except Exception as _e:\n    ERRS.append(_e)\n")
			}
			prog := sb.String()
			errsOf := func() []py.Object {
				ctx, _ := NewCtx(nil, nil)
				defer ctx.Close()
				mod, err := ctx.Store().NewModule(ctx, &py.ModuleImpl{Info: py.ModuleInfo{FileDesc: "<c08errs>"}})
				if err != nil {
					return nil
				}
				code, err := py.Compile(prog, "<c08errs>", py.ExecMode, 0, true)
				if err != nil {
					return nil
				}
				Protect(func() { ctx.RunCode(code, mod.Globals, mod.Globals, nil) })
				l, _ := mod.Globals["ERRS"].(*py.List)
				if l == nil {
					return nil
				}
				return append([]py.Object(nil), l.Items...)
			}
			a, b := errsOf(), errsOf()
			r.Count("errs:"+prog, len(a) > 0)
			r.Class("exception-object-identity")
			seen := map[py.Object]int{}
			for i, e := range a {
				if _, ok := e.(*py.Exception); ok {
					seen[e] = i
				}
			}
			for j, e := range b {
				if i, ok := seen[e]; ok {
					cls, _ := ErrClass(e.(*py.Exception))
					if !r.Mismatch(&Case{Kind: "c08errs", Sig: "shared-exception-object:" + cls, Program: prog, Expected: "two runs in two contexts get distinct exception objects", Actual: fmt.Sprintf("ERRS[%d] of the first context is ERRS[%d] of the second (%s)", i, j, cls)}) {
						rt.Fatalf("C08 shared exception object")
					}
					break
				}
			}
		}
		// one code object, many contexts at once
		code, err := py.Compile("import math\n_acc = []\nfor i in range(50):\n    _acc.append(i * i)\ndef h(n):\n    return [math.floor(n / 2) for _ in range(3)]\n_acc.append(h(9))\n", "<shared>", py.ExecMode, 0, true)
		if err != nil {
			r.Infra("%v", err)
		}
		want := ""
		var wg sync.WaitGroup
		outs := make([]string, 16)
		for i := 0; i < 16; i++ {
			wg.Add(1)
			go func(i int) {
				defer wg.Done()
				c, err := c08NewCtx(dir, i)
				if err != nil {
					return
				}
				defer c.ctx.Close()
				if _, err := c.ctx.RunCode(code, c.mod.Globals, c.mod.Globals, nil); err != nil {
					outs[i] = "error"
					return
				}
				outs[i] = Enc(c.mod.Globals["_acc"])
			}(i)
		}
		wg.Wait()
		want = outs[0]
		r.Count("shared-code", true)
		r.Class("shared-code-object")
		for i := range outs {
			if outs[i] != want || outs[i] == "error" || outs[i] == "" {
				if !r.Mismatch(&Case{Kind: "c08", Sig: "shared-code-object", Program: "one code object run by 16 contexts", Expected: want, Actual: outs[i]}) {
					rt.Fatalf("C08 shared code object")
				}
				break
			}
		}
		// one embedder-registered module implementation carrying source text, first imported by many contexts at once
		{
			c08ModSeq++
			name := fmt.Sprintf("verifsrcmod%d_%d", os.Getpid(), c08ModSeq)
			py.RegisterModule(&py.ModuleImpl{Info: py.ModuleInfo{Name: name, FileDesc: "<" + name + ">"}, CodeSrc: "state = []\ndef add(x):\n    state.append(x)\n    return state\n"})
			shared := &py.ModuleImpl{Info: py.ModuleInfo{Name: name + "_direct", FileDesc: "<direct>"}, CodeSrc: "state = [0]\n"}
			var wg3 sync.WaitGroup
			outs3 := make([]string, 8)
			for i := 0; i < 8; i++ {
				wg3.Add(1)
				go func(i int) {
					defer wg3.Done()
					c, err := c08NewCtx(dir, i)
					if err != nil {
						return
					}
					defer c.ctx.Close()
					// an embedder may register further modules while contexts are being made and are importing
					own := fmt.Sprintf("%s_late%d", name, i)
					py.RegisterModule(&py.ModuleImpl{Info: py.ModuleInfo{Name: own, FileDesc: "<" + own + ">"}, CodeSrc: fmt.Sprintf("me = %d\n", i)})
					c.runStmt(fmt.Sprintf("import %s as sm\n_acc = list(sm.add(%d))", name, i))
					c.runStmt(fmt.Sprintf("import %s as late\nassert late.me == %d", own, i))
					if m, err := c.ctx.ModuleInit(shared); err == nil {
						c.mod.Globals["_direct"] = m.Globals["state"]
						c.runStmt(fmt.Sprintf("_direct.append(%d)\n_acc.append(list(_direct))", i))
					}
					outs3[i] = Enc(c.mod.Globals["_acc"])
				}(i)
			}
			wg3.Wait()
			r.Count("registered-source-module", true)
			r.Class("registered-source-module")
			for i := range outs3 {
				if want := fmt.Sprintf("l[i%d,l[i0,i%d]]", i, i); outs3[i] != want {
					if !r.Mismatch(&Case{Kind: "c08", Sig: "registered-source-module", Program: "a registered ModuleImpl with CodeSrc imported by 8 contexts at once", Expected: want, Actual: outs3[i]}) {
						rt.Fatalf("C08 registered source module")
					}
					break
				}
			}
		}
		// two REPLs on two contexts at once
		if r.On("c08.repl.concurrent") {
			var wg2 sync.WaitGroup
			var replErr atomic.Value
			for i := 0; i < 2; i++ {
				wg2.Add(1)
				go func(i int) {
					defer wg2.Done()
					ctx, _ := NewCtx(nil, nil)
					defer ctx.Close()
					rp := repl.New(ctx)
					ui := &c20UI{}
					rp.SetUI(ui)
					var want []string
					for n := 0; n < 20; n++ {
						rp.Run(fmt.Sprintf("x = %d", i*100+n))
						rp.Run("x + 1")
						want = append(want, fmt.Sprint(i*100+n+1))
					}
					// every echo of this REPL, and only those, reached its own UI
					if fmt.Sprint(ui.prints) != fmt.Sprint(want) {
						replErr.Store(fmt.Sprintf("REPL %d: its UI received %v, expected %v", i, ui.prints, want))
					}
				}(i)
			}
			wg2.Wait()
			r.Class("two-repls")
			r.Count("two-repls", true)
			if e, _ := replErr.Load().(string); e != "" {
				if !r.Mismatch(&Case{Kind: "c08repl", Sig: "repl-echo-misrouted", Program: "two REPLs on two contexts, 20 x (x = n; x + 1) each", Expected: "each UI receives its own echoes", Actual: e}) {
					rt.Fatalf("C08 REPL echo misrouted")
				}
			}
		}
	})
}

func init() {
	replayers["c08errs"] = func(c *Case) (string, string, error) {
		run := func() []py.Object {
			ctx, _ := NewCtx(nil, nil)
			defer ctx.Close()
			mod, err := ctx.Store().NewModule(ctx, &py.ModuleImpl{Info: py.ModuleInfo{FileDesc: "<c08errs>"}})
			if err != nil {
				return nil
			}
			code, err := py.Compile(c.Program, "<c08errs>", py.ExecMode, 0, true)
			if err != nil {
				return nil
			}
			Protect(func() { ctx.RunCode(code, mod.Globals, mod.Globals, nil) })
			l, _ := mod.Globals["ERRS"].(*py.List)
			if l == nil {
				return nil
			}
			return append([]py.Object(nil), l.Items...)
		}
		a, b := run(), run()
		seen := map[py.Object]bool{}
		for _, e := range a {
			if _, ok := e.(*py.Exception); ok {
				seen[e] = true
			}
		}
		for _, e := range b {
			if seen[e] {
				cls, _ := ErrClass(e.(*py.Exception))
				return "shared-exception-object:" + cls, "an exception object of the first context reappears in the second", nil
			}
		}
		return "", "", nil
	}
}

func init() {
	replayers["c08"] = func(c *Case) (string, string, error) {
		var progs [][]string
		if l, ok := c.Args["programs"].([]interface{}); ok {
			for _, p := range l {
				var prog []string
				for _, s := range p.([]interface{}) {
					prog = append(prog, s.(string))
				}
				progs = append(progs, prog)
			}
		}
		var sched []int
		if l, ok := c.Args["schedule"].([]interface{}); ok {
			for _, x := range l {
				sched = append(sched, int(x.(float64)))
			}
		}
		if len(progs) == 0 {
			return "", "", fmt.Errorf("case carries no programs")
		}
		dir, err := os.MkdirTemp("", "c08replay")
		if err != nil {
			return "", "", err
		}
		defer os.RemoveAll(dir)
		os.WriteFile(filepath.Join(dir, "shared_mod.py"), []byte("counter = 0\nitems = []\n"), 0o644)
		k := len(progs)
		solo := make([]string, k)
		for i := range progs {
			solo[i], _ = c08Solo(dir, (i+1)*11, progs[i])
		}
		ctxs := make([]*c08Ctx, k)
		for i := range ctxs {
			ctxs[i], err = c08NewCtx(dir, (i+1)*11)
			if err != nil {
				return "", "", err
			}
		}
		pos := make([]int, k)
		for _, i := range sched {
			if i < k && pos[i] < len(progs[i]) {
				ctxs[i].runStmt(progs[i][pos[i]])
				pos[i]++
			}
		}
		for i := range progs {
			for pos[i] < len(progs[i]) {
				ctxs[i].runStmt(progs[i][pos[i]])
				pos[i]++
			}
		}
		for i := range ctxs {
			got := ctxs[i].view()
			ctxs[i].ctx.Close()
			if got != solo[i] {
				return "leak", fmt.Sprintf("program %d: alone %s, with the others %s", i, solo[i], got), nil
			}
		}
		return "", "", nil
	}
}

// the two-REPL reproducer: the race itself needs the race detector, but the shared mutable hook is
// visible without it: REPL.Run replaces the package-level vm.PrintExpr while a line runs.
func init() {
	replayers["c08repl"] = func(c *Case) (string, string, error) {
		ctx, _ := NewCtx(nil, nil)
		defer ctx.Close()
		rp := repl.New(ctx)
		ui := &c20UI{}
		rp.SetUI(ui)
		mod, err := ctx.GetModule("builtins")
		if err != nil {
			return "", "", err
		}
		// a Go function called while the REPL executes a line observes whether the package-level hook was swapped
		swapped := false
		marker := func(string) {}
		old := vm.PrintExpr
		vm.PrintExpr = marker
		defer func() { vm.PrintExpr = old }()
		mod.Globals["verif_probe"] = py.MustNewMethod("verif_probe", func(self py.Object) (py.Object, error) {
			swapped = fmt.Sprintf("%p", vm.PrintExpr) != fmt.Sprintf("%p", marker)
			return py.None, nil
		}, 0, "")
		rp.Run("verif_probe(0)") // a method without a module takes its first argument as receiver
		if swapped {
			return "datarace:vm.PrintExpr", "REPL.Run swaps the package-level vm.PrintExpr while executing (shared by every REPL and context)", nil
		}
		return "", "", nil
	}
}

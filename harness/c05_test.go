//go:build verif

package harness

// C05 — generators are lazy/resumable; iteration ends only on StopIteration (DESIGN section 6).

import (
	"fmt"
	"strings"
	"testing"

	"pgregory.net/rapid"
)

const c05Prelude = `_log = []
_res = []
def run(c, mk):
    _log.append('#')
    try:
        _res.append(c(mk()))
    except StopIteration:
        _res.append('StopIteration')
    except ZeroDivisionError:
        _res.append('ZeroDivisionError')
    except IndexError:
        _res.append('IndexError')
    except KeyError:
        _res.append('KeyError')
    except TypeError:
        _res.append('TypeError')
    except ValueError:
        _res.append('ValueError')
    except RuntimeError:
        _res.append('RuntimeError')
    except Exception:
        _res.append('Exception')
def guard(f):
    try:
        return f()
    except StopIteration:
        return 'StopIteration'
    except ZeroDivisionError:
        return 'ZeroDivisionError'
    except IndexError:
        return 'IndexError'
    except KeyError:
        return 'KeyError'
    except TypeError:
        return 'TypeError'
    except ValueError:
        return 'ValueError'
    except RuntimeError:
        return 'RuntimeError'
    except Exception:
        return 'Exception'
def run2(c, mk):
    # the same cell through an explicit iterator which is looked at again afterwards: the consumer must leave it
    # positioned right after the last item it took (exhausted, if it ran to the end)
    _log.append('#2')
    it = guard(lambda: iter(mk()))
    _res.append(guard(lambda: c(it)))
    _res.append(('rest', guard(lambda: list(it)), guard(lambda: next(it, 'done'))))
def boom(x, n, kind):
    if x == n:
        if kind == 1:
            raise KeyError
        raise ZeroDivisionError
    return x
`

type c05Consumer struct {
	name string
	def  string // defines function c_<name>(it)
	strs bool   // needs string items
	iter bool   // needs a real iterator (wrap with iter())
}

var c05Consumers = []c05Consumer{
	{"for", "def c_for(it):\n    r = []\n    for x in it:\n        r.append(x)\n    else:\n        r.append('else')\n    return r\n", false, false},
	{"listcomp", "def c_listcomp(it):\n    return [x for x in it]\n", false, false},
	{"setcomp", "def c_setcomp(it):\n    return {x for x in it}\n", false, false},
	{"dictcomp", "def c_dictcomp(it):\n    return {str(x): x for x in it}\n", false, false},
	{"genexp", "def c_genexp(it):\n    return list(x for x in it)\n", false, false},
	{"unpack2", "def c_unpack2(it):\n    a, b = it\n    return (a, b)\n", false, false},
	{"unpackstar", "def c_unpackstar(it):\n    a, *b = it\n    return (a, b)\n", false, false},
	{"starcall", "def c_starcall(it):\n    return (lambda *a: a)(*it)\n", false, false},
	{"list", "def c_list(it):\n    return list(it)\n", false, false},
	{"tuple", "def c_tuple(it):\n    return tuple(it)\n", false, false},
	{"set", "def c_set(it):\n    return set(it)\n", false, false},
	{"sum", "def c_sum(it):\n    return sum(it)\n", false, false},
	{"min", "def c_min(it):\n    return min(it)\n", false, false},
	{"max", "def c_max(it):\n    return max(it)\n", false, false},
	{"sorted", "def c_sorted(it):\n    return sorted(it)\n", false, false},
	{"zip", "def c_zip(it):\n    return list(zip(it, [5, 6, 7, 8, 9]))\n", false, false},
	{"zip2", "def c_zip2(it):\n    return list(zip([5, 6, 7, 8, 9], it))\n", false, false},
	{"map", "def c_map(it):\n    return list(map(lambda x: (x, 1), it))\n", false, false},
	{"filter", "def c_filter(it):\n    return list(filter(lambda x: x != 1, it))\n", false, false},
	{"enumerate", "def c_enumerate(it):\n    return list(enumerate(it))\n", false, false},
	{"any", "def c_any(it):\n    return any(it)\n", false, false},
	{"all", "def c_all(it):\n    return all(it)\n", false, false},
	{"in", "def c_in(it):\n    return 1 in it\n", false, false},
	{"notin", "def c_notin(it):\n    return 7 not in it\n", false, false},
	{"join", "def c_join(it):\n    return '-'.join(it)\n", true, false},
	{"yieldfrom", "def c_yieldfrom(it):\n    def g():\n        r = yield from it\n        _log.append(('ret', r))\n    return list(g())\n", false, false},
	{"nextdefault", "def c_nextdefault(it):\n    return [next(it, 'd'), next(it, 'd'), next(it, 'd'), next(it, 'd'), next(it, 'd')]\n", false, true},
	{"next", "def c_next(it):\n    r = []\n    r.append(next(it))\n    r.append(next(it))\n    r.append(next(it))\n    r.append(next(it))\n    return r\n", false, true},
}

type c05Producer struct {
	kind, mode string
	n          int
}

func c05Producers() []c05Producer {
	var out []c05Producer
	for n := 0; n <= 3; n++ {
		for _, m := range []string{"end", "KeyError", "ZeroDivisionError", "return"} {
			out = append(out, c05Producer{"genfunc", m, n})
		}
		for _, m := range []string{"end", "KeyError"} {
			out = append(out, c05Producer{"genexp", m, n})
		}
		for _, m := range []string{"SI-class", "SI-instance", "KeyError", "ZeroDivisionError"} {
			out = append(out, c05Producer{"itclass", m, n})
		}
		for _, m := range []string{"IndexError", "KeyError", "ZeroDivisionError"} {
			out = append(out, c05Producer{"getitem", m, n})
		}
		for _, m := range []string{"list", "tuple", "range", "str", "dictkeys", "listiter", "map", "filter"} {
			out = append(out, c05Producer{"builtin", m, n})
		}
	}
	// an object whose __iter__ itself raises: every consumer hands that exception on unchanged
	for _, m := range []string{"KeyError", "ZeroDivisionError", "ValueError"} {
		out = append(out, c05Producer{"iterraises", m, 0})
	}
	return out
}

func (p c05Producer) id() string { return fmt.Sprintf("%s:%s:%d", p.kind, p.mode, p.n) }

// val renders item i (ints, or one-letter strings when strs)
func c05Val(i int, strs bool) string {
	if strs {
		return fmt.Sprintf("'%c'", 'a'+i)
	}
	return fmt.Sprint(i)
}

// def returns (definitions, maker expression)
func (p c05Producer) def(idx int, strs bool) (string, string) {
	name := fmt.Sprintf("P%d", idx)
	var sb strings.Builder
	switch p.kind {
	case "genfunc":
		sb.WriteString("def " + name + "():\n")
		for i := 0; i < p.n; i++ {
			fmt.Fprintf(&sb, "    _log.append('y%d')\n    yield %s\n", i, c05Val(i, strs))
		}
		sb.WriteString("    _log.append('t')\n")
		switch p.mode {
		case "KeyError":
			sb.WriteString("    raise KeyError\n")
		case "ZeroDivisionError":
			sb.WriteString("    1 // 0\n")
		case "return":
			sb.WriteString("    return (99, 98)\n")
		}
		if p.n == 0 {
			sb.WriteString("    if False:\n        yield 0\n")
		}
		return sb.String(), name + "()"
	case "iterraises":
		fmt.Fprintf(&sb, "class %s:\n    def __iter__(self):\n        _log.append('iter')\n        raise %s\n", name, p.mode)
		return sb.String(), name + "()"
	case "genexp":
		vals := make([]string, p.n+1)
		for i := range vals {
			vals[i] = c05Val(i, strs)
		}
		if p.mode == "end" {
			return "", "(x for x in [" + strings.Join(vals[:p.n], ", ") + "])"
		}
		return "", fmt.Sprintf("(boom(x, %s, 1) for x in [%s])", vals[p.n], strings.Join(vals, ", "))
	case "itclass":
		fmt.Fprintf(&sb, "class %s:\n    def __init__(self):\n        self.i = 0\n    def __iter__(self):\n        return self\n    def __next__(self):\n        i = self.i\n        self.i += 1\n        _log.append('n')\n", name)
		for i := 0; i < p.n; i++ {
			fmt.Fprintf(&sb, "        if i == %d:\n            return %s\n", i, c05Val(i, strs))
		}
		switch p.mode {
		case "SI-class":
			sb.WriteString("        raise StopIteration\n")
		case "SI-instance":
			sb.WriteString("        raise StopIteration()\n")
		case "KeyError":
			sb.WriteString("        raise KeyError\n")
		default:
			sb.WriteString("        return 1 // 0\n")
		}
		return sb.String(), name + "()"
	case "getitem":
		fmt.Fprintf(&sb, "class %s:\n    def __getitem__(self, i):\n        _log.append('g')\n", name)
		for i := 0; i < p.n; i++ {
			fmt.Fprintf(&sb, "        if i == %d:\n            return %s\n", i, c05Val(i, strs))
		}
		switch p.mode {
		case "IndexError":
			sb.WriteString("        raise IndexError\n")
		case "KeyError":
			sb.WriteString("        raise KeyError\n")
		default:
			sb.WriteString("        return 1 // 0\n")
		}
		return sb.String(), name + "()"
	default:
		vals := make([]string, p.n)
		for i := range vals {
			vals[i] = c05Val(i, strs)
		}
		lst := "[" + strings.Join(vals, ", ") + "]"
		switch p.mode {
		case "list":
			return "", lst
		case "tuple":
			return "", "tuple(" + lst + ")"
		case "range":
			if strs {
				return "", "map(str, range(" + fmt.Sprint(p.n) + "))"
			}
			return "", fmt.Sprintf("range(%d)", p.n)
		case "str":
			return "", "'" + "0123"[:p.n] + "'"
		case "dictkeys":
			if p.n == 0 {
				return "", "{}"
			}
			return "", "{'k': 1}"
		case "listiter":
			return "", "iter(" + lst + ")"
		case "map":
			return "", "map(lambda x: x, " + lst + ")"
		default:
			return "", "filter(lambda x: True, " + lst + ")"
		}
	}
}

var c05Vars = []string{"_log", "_res"}

func c05Matrix(r *Run) {
	prods := c05Producers()
	for ci, cons := range c05Consumers {
		if ci%r.NShards != r.Shard {
			continue
		}
		var defs strings.Builder
		defs.WriteString(c05Prelude + cons.def)
		var lines []string
		var ids []string
		var plist []c05Producer
		for pi, p := range prods {
			if p.kind == "builtin" && (p.mode == "str" || p.mode == "dictkeys") && !cons.strs && (cons.name == "sum" || cons.name == "in" || cons.name == "notin") {
				continue // 1 in 'abc' is a TypeError in both; uninteresting
			}
			if p.kind == "iterraises" && (cons.name == "in" || cons.name == "notin") {
				// CPython <= 3.7 rewords whatever __iter__ raised into TypeError for the in operator (later versions only reword
				// TypeError): version-dependent, fenced
				r.Fenced("in-operator-rewords-iter-error")
				continue
			}
			sw := fmt.Sprintf("c05.%s.%s.%s", cons.name, p.kind, p.mode)
			if !r.SwitchOn(sw) {
				r.On(sw)
				continue
			}
			d, mk := p.def(pi, cons.strs)
			defs.WriteString(d)
			if cons.iter {
				mk = "iter(" + mk + ")"
			}
			lines = append(lines, fmt.Sprintf("run(c_%s, lambda: %s)\nrun2(c_%s, lambda: %s)\n", cons.name, mk, cons.name, mk))
			ids = append(ids, cons.name+":"+p.id())
			plist = append(plist, p)
		}
		prog := defs.String() + strings.Join(lines, "")
		d, err := PyDiff(prog, PyDiffOpts{Vars: c05Vars})
		if err != nil {
			r.Infra("%v", err)
		}
		for _, id := range ids {
			r.Count("matrix:"+id, true)
		}
		r.Class("matrix:" + cons.name)
		r.Sample("matrix:"+cons.name, "consumer "+cons.name+": "+strings.TrimSpace(lines[len(lines)/2]))
		if d.Sig == "" {
			continue
		}
		// re-run cell by cell: every failing cell is reported under its own signature
		reported := 0
		for i, line := range lines {
			p1 := defs.String() + line
			d1, err := PyDiff(p1, PyDiffOpts{Vars: c05Vars})
			if err != nil {
				r.Infra("%v", err)
			}
			if d1.Sig == "" {
				continue
			}
			reported++
			p := plist[i]
			pd, mk := p.def(1000, cons.strs)
			if cons.iter {
				mk = "iter(" + mk + ")"
			}
			small := c05Prelude + cons.def + pd + fmt.Sprintf("run(c_%s, lambda: %s)\n", cons.name, mk)
			r.Mismatch(&Case{Kind: "pydiff", Sig: fmt.Sprintf("matrix:%s:%s:%s:%s", cons.name, p.kind, p.mode, d1.Sig), Program: small, Vars: c05Vars,
				Expected: d1.Expected, Actual: d1.Actual, Detail: "cell " + ids[i] + " " + d1.Detail})
		}
		if reported == 0 {
			r.Mismatch(&Case{Kind: "pydiff", Sig: "matrix-batch:" + cons.name + ":" + d.Sig, Program: prog, Vars: c05Vars, Expected: d.Expected, Actual: d.Actual, Detail: d.Detail})
		}
	}
}

// ---------------------------------------------------------------- generator histories

type c05Hist struct {
	g     *G
	r     *Run
	id    int
	kinds map[string]bool
}

func (h *c05Hist) nid() int { h.id++; return h.id }

// genBody generates the body of a generator function
func (h *c05Hist) genBody(depth int, inner []string) string {
	g := h.g
	var sb strings.Builder
	n := g.Int(1, 4)
	for i := 0; i < n; i++ {
		w := []int{4, 3, 2, 2, 2, 1, 1}
		if depth >= 3 {
			w = []int{4, 3, 0, 0, 0, 1, 1}
		}
		switch g.Weighted(w...) {
		case 0:
			id := h.nid()
			fmt.Fprintf(&sb, "_log.append(%d)\nyield %d\n_log.append(%d)\n", id, id*10, h.nid())
		case 1:
			h.kinds["send"] = true
			id := h.nid()
			fmt.Fprintf(&sb, "x = yield %d\n_log.append((%d, x))\n", id*10, id)
		case 2:
			h.kinds["loop"] = true
			v := fmt.Sprintf("i%d", h.nid())
			fmt.Fprintf(&sb, "for %s in range(%d):\n", v, g.Int(1, 3))
			sb.WriteString(Indent(fmt.Sprintf("_log.append(('%s', %s))\n", v, v)+h.genBody(depth+1, inner), 4))
		case 3:
			h.kinds["try-finally"] = true
			sb.WriteString("try:\n" + Indent(h.genBody(depth+1, inner), 4))
			if g.Bool() {
				h.kinds["try-except"] = true
				fmt.Fprintf(&sb, "except ZeroDivisionError:\n    _log.append(%d)\n    yield %d\n", h.nid(), h.nid()*10)
				if g.Chance(1, 3) && h.r.On("c05.hist.bare_raise_after_yield") {
					// re-raise after having been suspended inside the handler
					h.kinds["bare-raise-after-yield"] = true
					sb.WriteString("    raise\n")
				}
			}
			fmt.Fprintf(&sb, "finally:\n    _log.append('f%d')\n", h.nid())
			if g.Chance(1, 3) && h.r.On("c05.hist.yield_in_finally") {
				// a finally body that suspends: pending return values / exceptions must survive the suspension
				h.kinds["yield-in-finally"] = true
				fmt.Fprintf(&sb, "    yield %d\n    _log.append('g%d')\n", h.nid()*10, h.nid())
			}
		case 4:
			h.kinds["yield-from"] = true
			id := h.nid()
			var src string
			switch {
			case len(inner) > 0 && g.Chance(2, 3):
				src = inner[g.N(len(inner))] + "()"
			case g.Bool():
				src = "[1, 2]"
			default:
				src = "iter((3,))"
			}
			fmt.Fprintf(&sb, "r = yield from %s\n_log.append((%d, r))\n", src, id)
		case 5:
			h.kinds["raise"] = true
			fmt.Fprintf(&sb, "if len(_log) %% %d == 0:\n    _log.append('z')\n    1 // 0\n", g.Int(2, 4))
		case 6:
			h.kinds["return-value"] = true
			// the value may be a tuple: it is one value, not the argument list of the StopIteration
			fmt.Fprintf(&sb, "if len(_log) %% %d == 1:\n    return %s\n", g.Int(2, 5), strings.ReplaceAll(g.Str("%d", "%d", "(%d, 2)", "(%d,)", "()", "[%d]", "'r%d'", "((%d, 1), 2)"), "%d", fmt.Sprint(h.nid())))
		}
	}
	return sb.String()
}

const c05HistPrelude = `_log = []
_res = []
def step(kind, gen, arg):
    _log.append('|')
    try:
        if kind == 0:
            _res.append(next(gen))
        elif kind == 1:
            _res.append(gen.send(arg))
        else:
            _res.append(next(gen, 'dflt'))
    except StopIteration as e:
        _res.append(('StopIteration', e.value))
    except ZeroDivisionError:
        _res.append('ZeroDivisionError')
    except TypeError:
        _res.append('TypeError')
    except ValueError:
        _res.append('ValueError')
    except RuntimeError:
        _res.append('RuntimeError')
    except Exception:
        _res.append('Exception')
`

func TestC05(t *testing.T) {
	r := StartRun(t, "C05")
	defer r.Finish()
	r.Extra("rule", "matrix: every consumer the property lists (for, comprehensions, unpacking, star-call, list/tuple/set/sum/min/max/sorted/zip/map/filter/enumerate/any/all, in, join, "+
		"yield from, next with default) x producer kind (generator function, generator expression, __iter__/__next__ class, __getitem__ class, builtin iterables) x length 0-3 x "+
		"termination mode (end, StopIteration class/instance, KeyError, ZeroDivisionError, IndexError, return value) - exhaustive; histories: rapid-drawn sequences (<=12) of "+
		"next/send/next-with-default over 1-3 live generators built from yield, x = yield, loops, try/finally, yield from, return value, raising statements, continuing after "+
		"exhaustion. Oracle: CPython on (event log, results/exception classes, StopIteration.value). Non-trivial: every matrix cell; histories with >=2 generators or send/try/yield-from.")
	r.Extra("assumptions", []string{"PEP 479 fence: generator bodies never raise StopIteration themselves", "close()/throw() not generated (not listed by the property)"})
	r.ReplayKnown()
	if _, err := GetOracle(); err != nil {
		r.Infra("%v", err)
	}
	c05Matrix(r)
	if r.Shard == 0 {
		c05Extras(r)
	}
	r.SetExhaustive(true)
	rapid.Check(t, func(rt *rapid.T) {
		h := &c05Hist{g: &G{T: rt}, r: r, kinds: map[string]bool{}}
		ngen := h.g.Int(1, 3)
		var defs strings.Builder
		var names []string
		for i := 0; i < ngen; i++ {
			name := fmt.Sprintf("G%d", i)
			body := h.genBody(1, names)
			defs.WriteString("def " + name + "():\n" + Indent(body, 4) + "    if False:\n        yield\n")
			names = append(names, name)
		}
		var hist strings.Builder
		for i := range names {
			fmt.Fprintf(&hist, "g%d = G%d()\n", i, i)
		}
		nsteps := h.g.Int(1, 12)
		started := map[int]bool{}
		for s := 0; s < nsteps; s++ {
			gi := h.g.N(ngen)
			kind := h.g.Weighted(4, 3, 1)
			arg := "None"
			if kind == 1 {
				if started[gi] || h.g.Chance(1, 6) {
					arg = fmt.Sprint(100 + s)
				}
			}
			started[gi] = true
			fmt.Fprintf(&hist, "step(%d, g%d, %s)\n", kind, gi, arg)
		}
		body := defs.String() + hist.String()
		prog := c05HistPrelude + body
		nt := ngen >= 2 || h.kinds["send"] || h.kinds["try-finally"] || h.kinds["yield-from"]
		r.Count(body, nt)
		for k := range h.kinds {
			r.Class("hist:" + k)
		}
		r.Sample(body, body)
		d, err := PyDiff(prog, PyDiffOpts{Vars: c05Vars})
		if err != nil {
			r.Infra("%v", err)
		}
		if d.Sig != "" {
			if !r.Mismatch(&Case{Kind: "pydiff", Sig: "hist:" + d.Sig, Program: prog, Vars: c05Vars, Expected: d.Expected, Actual: d.Actual, Detail: d.Detail}) {
				rt.Fatalf("C05 mismatch %s", d.Sig)
			}
		}
	})
}

// c05Extras: iterator objects around the generator core - what stays of them after partial consumption, end cases of
// the consumers, and the value carried by StopIteration objects of every making
func c05Extras(r *Run) {
	pre := "_res = []\n" + strings.SplitN(c05Prelude, "def run2", 2)[0][len("_log = []\n_res = []\n"):]
	var progs []string
	add := func(body string) { progs = append(progs, pre+body) }
	// consumers given no iterable at all
	add("_res.append(guard(lambda: next(zip(), 'empty')))\n_res.append(guard(lambda: next(zip(*[]), 'empty')))\nn = 0\nfor t in zip(*[]):\n    n += 1\n    if n >= 3:\n        break\n_res.append(n)\n")
	// iterator objects are their own iterators and keep their position: enumerate, zip, map, filter partly consumed by a for loop
	for _, mk := range []string{"enumerate('abcd')", "enumerate('abcd', 10)", "zip('abcd', [1, 2, 3, 4])", "map(str, [1, 2, 3, 4])", "filter(None, [1, 0, 2, 3, 4])", "iter([1, 2, 3, 4])", "iter('abcd')", "iter((1, 2, 3, 4))", "iter(range(4))", "(x for x in 'abcd')"} {
		add("e = " + mk + "\nfor x in e:\n    break\n_res.append(guard(lambda: iter(e) is e))\n_res.append(guard(lambda: next(e)))\n_res.append(guard(lambda: [p for p in e]))\n_res.append(guard(lambda: next(e, 'done')))\n_res.append(guard(lambda: list(zip(" + mk + ", " + mk + "))))\ne2 = " + mk + "\n_res.append(guard(lambda: list(zip(e2, e2))))\n")
	}
	// str.join reads the whole iterable before it looks at the items: the iterable's own exception wins, nothing is left over
	for _, items := range []string{"'a', 1, 'c'", "'a', 'b', None", "1, 'b'", "'a', 'b'"} {
		for _, tail := range []string{"raise ValueError('g')", "pass"} {
			add("log = []\ndef g():\n    for x in (" + items + ",):\n        yield x\n        log.append(x)\n    " + tail + "\n_res.append(guard(lambda: ','.join(g())))\n_res.append(log)\nit = iter([" + items + ", 'z'])\n_res.append(guard(lambda: ','.join(it)))\n_res.append(list(it))\n")
		}
	}
	// iter(callable, sentinel): the sentinel is compared with ==, and the iterator stays exhausted
	for _, c := range []struct{ vals, sentinel string }{{"1, 2, 3, 4", "3"}, {"1, 2, 3, 4", "3.0"}, {"1, 2, True, 4", "1"}, {"[1], [], [2]", "[]"}, {"(1,), (), (2,)", "()"}, {"'a', 'b', 'c'", "'b'"}, {"1, None, 2", "None"}, {"1, 2", "9"}, {"{'k': 1}, {}, 5", "{}"}} {
		add("def feeder(vals):\n    it = iter(vals)\n    return lambda: next(it)\nci = iter(feeder([" + c.vals + "]), " + c.sentinel + ")\n_res.append(guard(lambda: list(ci)))\n_res.append(guard(lambda: list(ci)))\n_res.append(guard(lambda: next(ci, 'done')))\n_res.append(guard(lambda: iter(ci) is ci))\n")
	}
	// the value yield from evaluates to is the value attribute of the StopIteration, however the object was made
	for _, mk := range []string{"StopIteration('plain')", "StopIteration()", "StopIteration('first', 'second')", "StopIteration((1, 2))", "Done(404, 'payload')", "Assigned()"} {
		add("class Done(StopIteration):\n    def __init__(self, code, result):\n        self.value = result\ndef Assigned():\n    e = StopIteration('first', 'second')\n    e.value = 'assigned'\n    return e\nclass It:\n    def __init__(self, exc):\n        self.exc = exc\n    def __iter__(self):\n        return self\n    def __next__(self):\n        raise self.exc\n" +
			"def delegate(exc):\n    r = yield from It(exc)\n    yield r\ne = " + mk + "\n_res.append(guard(lambda: e.value))\n_res.append(guard(lambda: list(delegate(e))))\n")
	}
	for i, prog := range progs {
		d, err := PyDiff(prog, PyDiffOpts{Vars: []string{"_res"}})
		if err != nil {
			r.Infra("%v", err)
		}
		r.Count(fmt.Sprintf("extras:%d:%s", i, prog), true)
		r.Class("extras")
		if d.Sig != "" {
			r.Mismatch(&Case{Kind: "pydiff", Sig: fmt.Sprintf("extras:%s", d.Sig), Program: prog, Vars: []string{"_res"}, Expected: d.Expected, Actual: d.Actual, Detail: d.Detail})
		}
	}
}

//go:build verif

package harness

// C13 — indexing and slicing follow the sequence model for all indices (DESIGN section 6).

import (
	"fmt"
	"math/big"
	"strconv"
	"strings"
	"testing"

	"github.com/go-python/gpython/py"
)

const c13Prelude = `_res = []
def t(f):
    try:
        return f()
    except IndexError:
        return 'IndexError'
    except ValueError:
        return 'ValueError'
    except TypeError:
        return 'TypeError'
    except KeyError:
        return 'KeyError'
    except OverflowError:
        return 'OverflowError'
    except ZeroDivisionError:
        return 'ZeroDivisionError'
    except MemoryError:
        return 'MemoryError'
    except Exception:
        return 'Exception'
def setitem(y, i, v):
    y[i] = v
def setslice(y, a, b, c, v):
    y[a:b:c] = v
def setslice2(y, a, b, v):
    y[a:b] = v
def delitem(y, i):
    del y[i]
def delslice(y, a, b, c):
    del y[a:b:c]
def delslice2(y, a, b):
    del y[a:b]
class IX:
    # an index object: __index__ may give a bool or an int beyond the machine word
    def __init__(self, v):
        self.v = v
    def __index__(self):
        return self.v
def gen3():
    yield 81
    yield 82
    yield 83
`

type c13Type struct {
	name string
	mk   func(n int) string // python expression building a fresh sequence of length n
	list bool
	rng  bool
}

var c13Types = []c13Type{
	{"list", func(n int) string { return "[10, 11, 12, 13, 14, 15][:" + fmt.Sprint(n) + "]" }, true, false},
	{"tuple", func(n int) string { return "(10, 11, 12, 13, 14, 15)[:" + fmt.Sprint(n) + "]" }, false, false},
	{"str", func(n int) string { return "'abcdef'[:" + fmt.Sprint(n) + "]" }, false, false},
	{"ustr", func(n int) string { return "'a\\u00e9\\u20ac\\U0001f600b\\u00ff'[:" + fmt.Sprint(n) + "]" }, false, false},
	{"bytes", func(n int) string { return "b'abcdef'[:" + fmt.Sprint(n) + "]" }, false, false},
	{"range", func(n int) string { return "range(" + fmt.Sprint(n) + ")" }, false, true},
	{"range3", func(n int) string { return "range(3, 3 + 2 * " + fmt.Sprint(n) + ", 2)" }, false, true},
	{"rangeneg", func(n int) string { return "range(7, 7 - 3 * " + fmt.Sprint(n) + ", -3)" }, false, true},
}

func c13Indices(full bool) []string {
	if full {
		out := []string{"None"}
		for i := -9; i <= 9; i++ {
			out = append(out, fmt.Sprint(i))
		}
		return append(out, "2**63-1", "-(2**63-1)", "-2**63", "2**64", "-2**64")
	}
	return []string{"None", "-7", "-3", "-2", "-1", "0", "1", "2", "3", "7", "2**63-1", "-2**63", "2**64"}
}

func c13Program(tp c13Type, n int, idx []string, thorough bool) string {
	var sb strings.Builder
	sb.WriteString(c13Prelude)
	fmt.Fprintf(&sb, "def mk():\n    return %s\n", tp.mk(n))
	fmt.Fprintf(&sb, "I = [%s]\n", strings.Join(idx, ", "))
	wrap := "r"
	if tp.rng {
		// ranges compare by content here: two equal ranges may be spelled differently
		sb.WriteString("def w(r):\n    if isinstance(r, range):\n        return ['range', list(r), len(r)]\n    return r\n")
		wrap = "w(r)"
	}
	_ = wrap
	sb.WriteString("x = mk()\n")
	// indexing
	if tp.rng {
		sb.WriteString("for i in I:\n    if i is not None:\n        r = t(lambda: x[i])\n        _res.append((0, i, 0, 0, w(r)))\n")
		sb.WriteString("for a in I:\n    for b in I:\n        for c in I:\n            r = t(lambda: x[a:b:c])\n            _res.append((1, a, b, c, w(r)))\n")
	} else {
		sb.WriteString("for i in I:\n    if i is not None:\n        _res.append((0, i, 0, 0, t(lambda: x[i])))\n")
		sb.WriteString("for a in I:\n    for b in I:\n        for c in I:\n            _res.append((1, a, b, c, t(lambda: x[a:b:c])))\n")
	}
	sb.WriteString("for a in I:\n    for b in I:\n        _res.append((7, a, b, 0, t(lambda: list(x[a:b]))))\n")
	// index objects: the value of __index__ is used exactly like the int itself, whatever its representation
	sb.WriteString("for v in [0, 1, -1, True, False, 2**100, -2**100, 2**63, -2**63 - 1, 'a', 1.0, None]:\n    _res.append((6, 19, 0, 0, (t(lambda: list(x[IX(v):])), t(lambda: list(x[:IX(v)])), t(lambda: list(x[::IX(v)])), t(lambda: x[IX(v)] if not isinstance(x, range) else list(x)[v]))))\n")
	// operand not corrupted
	sb.WriteString("_res.append((6, 0, 0, 0, list(x) == list(mk())))\n")
	// misc operations
	sb.WriteString("_res.append((6, 1, 0, 0, (len(x), list(x), [e for e in x])))\n")
	if !tp.rng {
		sb.WriteString("for k in [-1, 0, 1, 2, 3]:\n    _res.append((6, 2, k, 0, (t(lambda: x * k), t(lambda: k * x))))\n")
		sb.WriteString("_res.append((6, 3, 0, 0, (t(lambda: x + mk()), t(lambda: x + x[:1]), t(lambda: x[1:] + x))))\n")
		sb.WriteString("for y in [mk(), mk()[:1], mk()[1:], mk()[:-1], mk() + mk()[:1], mk()[::-1]]:\n    _res.append((6, 4, len(y), 0, (x == y, x != y)))\n    _res.append((6, 12, len(y), 0, (t(lambda: x < y), t(lambda: x <= y), t(lambda: x > y), t(lambda: x >= y))))\n")
		sb.WriteString("_res.append((6, 5, 0, 0, (t(lambda: x + 1), t(lambda: x * 'a'), t(lambda: x['a']), t(lambda: x[1.0]), t(lambda: x == 1), t(lambda: x < 1))))\n")
	} else {
		sb.WriteString("for y in [mk(), range(0), range(1), range(3, 5, 2), range(3, 4)]:\n    _res.append((6, 4, len(y), 0, (x == y, x != y)))\n")
		sb.WriteString("for k in [-1, 0, 1, 3, 5, 7, 10, 2**64]:\n    _res.append((6, 7, k, 0, (k in x, k not in x)))\n")
	}
	switch tp.name {
	case "list", "tuple", "range", "range3", "rangeneg":
		sb.WriteString("for k in [10, 11, 15, 3, 99, 'a', None]:\n    _res.append((6, 6, 0, 0, (k in x, k not in x)))\n")
	case "str", "ustr":
		sb.WriteString("for k in ['', 'a', 'b', 'ab', 'bc', '\\u00e9', '\\u20ac\\U0001f600', 'zz']:\n    _res.append((6, 6, 0, 0, (k in x, k not in x)))\n")
		sb.WriteString("_res.append((6, 8, 0, 0, t(lambda: 1 in x)))\n")
	case "bytes":
		sb.WriteString("for k in [b'', b'a', b'ab', b'bc', 97, 0, 255]:\n    _res.append((6, 6, 0, 0, (t(lambda: k in x), t(lambda: k not in x))))\n")
	}
	if tp.name == "list" || tp.name == "tuple" {
		// membership, equality and ordering look at identity before ==: objects without an __eq__ of their own (functions) are found
		// by identity, equal numbers of different types are found by ==
		conv := tp.name
		sb.WriteString("def fobj():\n    pass\ndef gobj():\n    pass\nels = [fobj, None, 1.0, True, 'a', (1, 2), [3], 2**70]\nz = " + conv + "(els)\n")
		sb.WriteString("for k in els + [gobj, 1, 1.0 + 0, (1, 2), [3], 'b', 0, False, 2**70, 2.0**70, " + conv + "]:\n    _res.append((6, 15, 0, 0, (t(lambda: k in z), t(lambda: k not in z))))\n")
		sb.WriteString("_res.append((6, 16, 0, 0, (z == z, z != z, z == " + conv + "(els), z != " + conv + "(els), " +
			conv + "([fobj]) == " + conv + "([fobj]), " + conv + "([fobj]) == " + conv + "([gobj]), t(lambda: " + conv + "([fobj, 1]) < " + conv + "([fobj, 2])), t(lambda: " + conv + "([fobj, 1]) < " + conv + "([gobj, 2])))))\n")
		if c13NanOn {
			// ... and a nan, which is not equal to itself, is found in the container that holds it (the same object), not in another
			sb.WriteString("nan = float('nan')\nzn = " + conv + "([nan, 1])\n_res.append((6, 17, 0, 0, (nan in zn, nan not in zn, float('nan') in zn, zn == zn, zn != zn, zn == " + conv + "([nan, 1]), " + conv + "([nan]) == " + conv + "([float('nan')]), t(lambda: " + conv + "([nan, 1]) < " + conv + "([nan, 2])))))\n")
		}
	}
	if !tp.rng {
		// in-place operators on slices and on sequences built from an iterator: every other reference keeps its value
		conv := map[string]string{"list": "list", "tuple": "tuple", "str": "''.join", "ustr": "''.join", "bytes": "bytes"}[tp.name]
		sb.WriteString("y = mk()\ny0 = mk()\na = y[:2]\nb = y[:2]\nc = y[1:3]\nd = y[:]\na += y[:1]\nb += y[1:2]\nc *= 2\nd += y\n")
		sb.WriteString("e = " + conv + "(iter(y))\nf = e\ng = e\nf += y[:1]\ng += y[1:2]\nh = y[:1]\nh += y[:1]\nh2 = h\nh += y[:1]\nh2 += y[1:2]\n")
		sb.WriteString("_res.append((6, 13, 0, 0, (list(y) == list(y0), a, b, c, d, e, f, g, h, h2)))\n")
	}
	if tp.list {
		rhs := "[[], [91], [91, 92], (91, 92, 93), [91, 92, 93, 94]]"
		sb.WriteString("RHS = " + rhs + "\n")
		sb.WriteString("for i in I:\n    if i is not None:\n        y = mk()\n        r = t(lambda: setitem(y, i, 77))\n        _res.append((2, i, 0, 0, r, y))\n        y = mk()\n        r = t(lambda: delitem(y, i))\n        _res.append((4, i, 0, 0, r, y))\n")
		sb.WriteString("for a in I:\n    for b in I:\n        for v in RHS:\n            y = mk()\n            r = t(lambda: setslice2(y, a, b, v))\n            _res.append((3, a, b, 1, len(v), r, y))\n        y = mk()\n        r = t(lambda: setslice2(y, a, b, gen3()))\n        _res.append((3, a, b, 1, -1, r, y))\n        y = mk()\n        r = t(lambda: setslice2(y, a, b, y))\n        _res.append((3, a, b, 1, -2, r, y))\n        y = mk()\n        r = t(lambda: delslice2(y, a, b))\n        _res.append((5, a, b, 1, r, y))\n")
		steps := "[None, 1, 2, 3, -1, -2, -3, 0]"
		if thorough {
			steps = "I"
		}
		sb.WriteString("for a in I:\n    for b in I:\n        for c in " + steps + ":\n            for v in RHS:\n                y = mk()\n                r = t(lambda: setslice(y, a, b, c, v))\n                _res.append((3, a, b, c, len(v), r, y))\n            y = mk()\n            r = t(lambda: setslice(y, a, b, c, y))\n            _res.append((3, a, b, c, -2, r, y))\n            y = mk()\n            r = t(lambda: delslice(y, a, b, c))\n            _res.append((5, a, b, c, r, y))\n")
		// aliasing: results never alias the operand
		sb.WriteString("y = mk()\nz = y[:]\nz.append(1)\nz2 = y + []\nz2.append(2)\nz3 = y * 1\nz3.append(3)\nz4 = list(y)\nz4.append(4)\nz5 = y[::1]\nz5.append(5)\n_res.append((6, 9, 0, 0, (y, z, z2, z3, z4, z5)))\n")
		sb.WriteString("y = mk()\nz = y\ny += [5]\ny *= 2\n_res.append((6, 10, 0, 0, (y, z, y is z)))\n")
		// results written to in place, two results from one operand, operands with spare capacity (after append / del)
		sb.WriteString("for prep in [lambda q: None, lambda q: q.append(7), lambda q: delitem(q, 0) if q else None, lambda q: q.extend([7, 8, 9])]:\n" +
			"    y = mk()\n    t(lambda: prep(y))\n    y0 = list(y)\n    c1 = y + [1]\n    c2 = y + [2]\n    c3 = y + []\n    c4 = y * 1\n    c5 = y[:]\n" +
			"    for c in [c3, c4, c5]:\n        if c:\n            c[0] = 99\n        c.append(98)\n" +
			"    _res.append((6, 14, 0, 0, (y == y0, c1, c2, c3, c4, c5)))\n")
		sb.WriteString("y = mk()\nr = t(lambda: y.extend((1, 2)))\ny += (3,)\ny += 'ab'\n_res.append((6, 11, 0, 0, (r, y)))\n")
	}
	return sb.String()
}

var c13Vars = []string{"_res"}

// c13NanOn: nan identity cases are generated (off while the finding nan-identity is open)
var c13NanOn = true

var c13OpNames = map[string]string{"i0": "index", "i1": "slice", "i2": "setitem", "i3": "setslice", "i4": "delitem", "i5": "delslice", "i6": "misc", "i7": "slice2"}

func c13StepClass(s string) string {
	switch {
	case s == "N" || s == "i1":
		return "step1"
	case s == "i0":
		return "step0"
	case strings.HasPrefix(s, "i-"):
		return "negstep"
	case len(s) > 6:
		return "hugestep"
	}
	return "posstep"
}

// c13Sig derives a narrow signature from the first diverging entry
func c13Sig(tp string, entry string) (string, string) {
	parts := SplitTop(entry)
	if len(parts) < 5 {
		return tp + ":?", entry
	}
	op := c13OpNames[parts[0]]
	if op == "" {
		op = parts[0]
	}
	label := fmt.Sprintf("%s %s %s %s", op, parts[1], parts[2], parts[3])
	switch op {
	case "slice", "setslice", "delslice":
		cls := c13StepClass(parts[3])
		extra := ""
		if op == "setslice" {
			switch parts[4] {
			case "i-2":
				extra = ":self"
			case "i-1":
				extra = ":gen"
			}
		}
		// start > stop for a positive step (empty slice in the middle)
		if cls == "step1" || cls == "posstep" {
			a, e1 := strconv.ParseInt(strings.TrimPrefix(parts[1], "i"), 10, 64)
			b, e2 := strconv.ParseInt(strings.TrimPrefix(parts[2], "i"), 10, 64)
			if e1 == nil && e2 == nil && a >= 0 && b >= 0 && a > b {
				extra += ":start>stop"
			}
		}
		return tp + ":" + op + ":" + cls + extra, label
	case "misc":
		return tp + ":misc" + parts[1][1:], label
	}
	return tp + ":" + op, label
}

func TestC13(t *testing.T) {
	r := StartRun(t, "C13")
	defer r.Finish()
	r.Extra("rule", "exhaustive: sequence type (list, tuple, ASCII str, mixed-width str, bytes, three range shapes) x length x every index and every (start, stop, step) over the index "+
		"lattice {None, small negatives/positives, +-2**63-ish, 2**64} x operation (index, slice, list item/slice assignment and deletion with right-hand sides of 5 lengths, a generator "+
		"and the list itself, concatenation, repetition, len, membership, equality, ordering, iteration, aliasing probes); one looping program per (type, length) run in gpython and "+
		"CPython, observations compared entry by entry. Quick: lengths 0,1,2,5 and the 13-value core lattice; thorough: lengths 0-6 and the 25-value lattice. "+
		"Non-trivial: every entry other than the identity slice; distinct by (type, length, operation, indices).")
	r.Extra("assumptions", []string{"CPython 3.6 sequence semantics equal 3.4's", "ranges compared by content (list, len), not spelling"})
	r.ReplayKnown()
	if _, err := GetOracle(); err != nil {
		r.Infra("%v", err)
	}
	c13NanOn = r.On("c13.identity.nan")
	lengths := []int{0, 1, 2, 5}
	if r.Thorough() {
		lengths = []int{0, 1, 2, 3, 4, 5, 6}
	}
	idx := c13Indices(r.Thorough())
	job := 0
	for _, tp := range c13Types {
		if !r.On("c13.type." + tp.name) {
			continue
		}
		for _, n := range lengths {
			job++
			if job%r.NShards != r.Shard {
				continue
			}
			prog := c13Program(tp, n, idx, r.Thorough())
			d, err := PyDiff(prog, PyDiffOpts{Vars: c13Vars})
			if err != nil {
				r.Infra("%v", err)
			}
			nent := int64(0)
			if d.O != nil {
				els := SplitTop(d.O.Obs["_res"])
				nent = int64(len(els))
				for _, e := range els {
					lab := e
					if i := strings.LastIndex(e, ","); i > 0 && len(e) > 60 {
						lab = e[:60]
					}
					r.Count(fmt.Sprintf("%s:%d:%s", tp.name, n, lab), !strings.HasPrefix(e, "t[i1,N,N,N"))
				}
			}
			_ = nent
			r.Class(tp.name)
			r.Sample(fmt.Sprintf("%s%d", tp.name, n), fmt.Sprintf("type %s length %d: %d observations over indices %v", tp.name, n, nent, idx))
			if d.Sig == "" {
				continue
			}
			if d.Index >= 0 && d.Var == "_res" {
				// report every distinct diverging signature of this program, not only the first
				ga, oa := SplitTop(d.G.Obs["_res"]), SplitTop(d.O.Obs["_res"])
				seen := map[string]bool{}
				for i := 0; i < len(ga) && i < len(oa); i++ {
					if ga[i] == oa[i] {
						continue
					}
					sig, label := c13Sig(tp.name, oa[i])
					if seen[sig] {
						continue
					}
					seen[sig] = true
					r.Mismatch(&Case{Kind: "pydiff", Sig: sig, Program: prog, Vars: c13Vars, Expected: oa[i], Actual: ga[i],
						Detail: fmt.Sprintf("type %s length %d entry %d (%s)", tp.name, n, i, label)})
				}
				if len(ga) != len(oa) {
					r.Mismatch(&Case{Kind: "pydiff", Sig: tp.name + ":length:" + d.Sig, Program: prog, Vars: c13Vars, Expected: fmt.Sprint(len(oa)), Actual: fmt.Sprint(len(ga)) + " exc=" + d.G.Exc + " " + d.G.ExcMsg})
				}
				continue
			}
			r.Mismatch(&Case{Kind: "pydiff", Sig: tp.name + ":" + d.Sig, Program: prog, Vars: c13Vars, Expected: d.Expected, Actual: d.Actual, Detail: d.Detail})
		}
	}
	if r.Shard == 0 {
		c13API(r)
	}
	r.SetExhaustive(true)
}

// c13API: index objects of every kind through the Go API (py.GetItem / SetItem / DelItem): small indices held as
// BigInt, bools, and objects with __index__ must select the same element as the plain int.
func c13API(r *Run) {
	ctx, _ := NewCtx(nil, nil)
	defer ctx.Close()
	mod, err := ctx.Store().NewModule(ctx, &py.ModuleImpl{Info: py.ModuleInfo{Name: "c13api", FileDesc: "<c13>"}})
	if err != nil {
		r.Infra("%v", err)
	}
	code, err := py.Compile("class WI:\n    def __init__(self, v):\n        self.v = v\n    def __index__(self):\n        return self.v\n", "<c13>", py.ExecMode, 0, true)
	if err != nil {
		r.Infra("%v", err)
	}
	if _, err := ctx.RunCode(code, mod.Globals, mod.Globals, nil); err != nil {
		r.Infra("%v", err)
	}
	wiType := mod.Globals["WI"]
	mk := func(kind string, v int64) py.Object {
		switch kind {
		case "bigint":
			return (*py.BigInt)(big.NewInt(v))
		case "index-object":
			o, err := py.Call(wiType, py.Tuple{py.Int(v)}, nil)
			if err != nil {
				r.Infra("%v", err)
			}
			return o
		}
		return py.Int(v)
	}
	seqs := map[string]func() py.Object{
		"list": func() py.Object {
			return py.NewListFromItems([]py.Object{py.Int(10), py.Int(11), py.Int(12), py.Int(13)})
		},
		"tuple": func() py.Object { return py.Tuple{py.Int(10), py.Int(11), py.Int(12), py.Int(13)} },
		"str":   func() py.Object { return py.String("aé€z") },
		"range": func() py.Object { return &py.Range{Start: 3, Stop: 11, Step: 2, Length: 4} },
	}
	outcome := func(o py.Object, err error, pclass string) string {
		if pclass != "" {
			return "panic:" + pclass
		}
		if err != nil {
			cls, _ := ErrClass(err)
			return "exc:" + cls
		}
		return Enc(o)
	}
	for sname, mkseq := range seqs {
		for v := int64(-6); v <= 6; v++ {
			var base string
			for _, kind := range []string{"int", "bigint", "index-object"} {
				var o py.Object
				var err error
				pclass, _, _ := Protect(func() { o, err = py.GetItem(mkseq(), mk(kind, v)) })
				got := outcome(o, err, pclass)
				r.Count(fmt.Sprintf("api:%s:%s:%d", sname, kind, v), kind != "int")
				if kind == "int" {
					base = got
					continue
				}
				if got != base {
					r.Mismatch(&Case{Kind: "c13api", Sig: "api:getitem:" + sname + ":" + kind, Args: map[string]interface{}{"seq": sname, "kind": kind, "index": v}, Expected: base, Actual: got,
						Detail: fmt.Sprintf("py.GetItem(%s, %s(%d)) differs from the plain int index", sname, kind, v)})
				}
				// slices with the same kind of bounds
				var so py.Object
				var serr error
				p2, _, _ := Protect(func() { so, serr = py.GetItem(mkseq(), py.NewSlice(mk(kind, v), py.None, py.None)) })
				var bo py.Object
				var berr error
				p3, _, _ := Protect(func() { bo, berr = py.GetItem(mkseq(), py.NewSlice(py.Int(v), py.None, py.None)) })
				enc := func(o py.Object, e error, p string) string {
					if rg, ok := o.(*py.Range); ok && e == nil && p == "" {
						var items []string
						py.Iterate(rg, func(it py.Object) bool { items = append(items, Enc(it)); return false })
						return "range" + fmt.Sprint(items)
					}
					return outcome(o, e, p)
				}
				if a, b := enc(so, serr, p2), enc(bo, berr, p3); a != b {
					r.Mismatch(&Case{Kind: "c13api", Sig: "api:slice:" + sname + ":" + kind, Args: map[string]interface{}{"seq": sname, "kind": kind, "index": v}, Expected: b, Actual: a,
						Detail: fmt.Sprintf("py.GetItem(%s, slice(%s(%d), None)) differs from the plain int bound", sname, kind, v)})
				}
			}
		}
	}
	r.Class("go-api-index-kinds")
}

func init() {
	replayers["c13api"] = func(c *Case) (string, string, error) {
		// the enumeration is tiny and deterministic: re-run it in triage style and look for the same signature
		rr := &Run{Prop: "C13", KF: &Findings{switches: map[string]string{}}, Triage: true, hashes: map[uint64]struct{}{}, classes: map[string]int64{}, excluded: map[string]int64{},
			knownHits: map[string]int64{}, fenced: map[string]int64{}, extra: map[string]interface{}{}, triage: map[string]*triageEnt{}}
		c13API(rr)
		for sig, e := range rr.triage {
			if sig == c.Sig || c.Sig == "" {
				return sig, e.Example.Detail + ": expected " + e.Example.Expected + " actual " + e.Example.Actual, nil
			}
		}
		return "", "", nil
	}
}

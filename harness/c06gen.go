//go:build verif

package harness

// Generator of (source text, expected canonical AST) pairs for C06, with spelling perturbations.

import (
	"fmt"
	"math"
	"math/big"
	"strconv"
	"strings"
)

const (
	tNL = "\x01NL" // end of logical line
	tIN = "\x01IN" // start of an indented block
	tDE = "\x01DE" // end of an indented block
)

// precedence levels
const (
	pLambda = 1
	pIfExp  = 2
	pOr     = 3
	pAnd    = 4
	pNot    = 5
	pCmp    = 6
	pBitOr  = 7
	pBitXor = 8
	pBitAnd = 9
	pShift  = 10
	pArith  = 11
	pTerm   = 12
	pUnary  = 13
	pPower  = 14
	pAtom   = 16
)

type frag struct {
	toks  []string
	prec  int
	canon string
}

type c06Gen struct {
	g        *G
	r        *Run
	kinds    map[string]bool
	budget   int
	inFunc   int
	inLoop   int
	nperturb map[string]bool
}

func (c *c06Gen) use(k string) { c.kinds[k] = true }

func cat(parts ...[]string) []string {
	var out []string
	for _, p := range parts {
		out = append(out, p...)
	}
	return out
}

func tk(s ...string) []string { return s }

// paren wraps f in parentheses if its precedence is below need; sometimes adds redundant parentheses
func (c *c06Gen) paren(f frag, need int) []string {
	if f.prec < need {
		return cat(tk("("), f.toks, tk(")"))
	}
	if c.g.Chance(1, 12) {
		c.nperturb["redundant-parens"] = true
		return cat(tk("("), f.toks, tk(")"))
	}
	return f.toks
}

var c06Names = []string{"a", "b", "c", "x", "y", "foo", "_z", "Bar9", "nonlocal_", "is_", "l"}

func (c *c06Gen) ident() string { return c06Names[c.g.N(len(c06Names))] }

func (c *c06Gen) name(ctx string) frag {
	n := c.ident()
	return frag{tk(n), pAtom, "name(id:" + n + "," + ctx + ")"}
}

// ---------------------------------------------------------------- literals

func (c *c06Gen) intLit() frag {
	g := c.g
	var v *big.Int
	switch g.N(5) {
	case 0:
		v = bi(int64(g.Int(0, 9)))
	case 1:
		v = bi(int64(g.Int(10, 100000)))
	case 2:
		v = new(big.Int).Lsh(bi(1), uint(g.Ints(31, 32, 62, 63, 64, 100)))
		v.Add(v, bi(int64(g.Int(-2, 2))))
	case 3:
		v = bi(int64(g.Ints(255, 256, 0x7fffffff, 0xffffffff)))
	default:
		v = drawBig(g)
		v.Abs(v)
	}
	var text string
	switch g.N(6) {
	case 0:
		text = "0" + g.Str("x", "X") + v.Text(16)
		if g.Bool() {
			text = text[:2] + strings.ToUpper(text[2:])
		}
		c.nperturb["int-base"] = true
	case 1:
		text = "0" + g.Str("o", "O") + v.Text(8)
		c.nperturb["int-base"] = true
	case 2:
		text = "0" + g.Str("b", "B") + v.Text(2)
		c.nperturb["int-base"] = true
	default:
		text = v.String()
		if v.Sign() == 0 && g.Bool() {
			text = g.Str("0", "00", "000")
		}
	}
	c.use("int")
	return frag{tk(text), pAtom, "num(i" + v.String() + ")"}
}

var c06Floats = []string{"1.0", "1.", ".5", "0.5", "1e3", "1E3", "1.5e-3", "1e+3", "0.1", "00.5", "1e308", "1e400", "5e-324", "0e0", "3.14159", "0.0", "123456789.123456789", "1e-400", "2.5E10", "9007199254740993.0", "0.30000000000000004", "1.7976931348623157e308", "01.5", "1e0", "4.9e-324", "007.e1"}

func (c *c06Gen) floatLit() frag {
	text := c06Floats[c.g.N(len(c06Floats))]
	v, err := strconv.ParseFloat(text, 64)
	if err != nil {
		// out of range: ParseFloat returns +-Inf with an error, which is also python's value
		if ne, ok := err.(*strconv.NumError); !ok || ne.Err != strconv.ErrRange {
			panic("c06: bad float table entry " + text)
		}
	}
	c.use("float")
	if c.g.Chance(1, 4) {
		c.use("imaginary")
		return frag{tk(text + c.g.Str("j", "J")), pAtom, "num(c:" + encFloat(v) + ")"}
	}
	return frag{tk(text), pAtom, "num(" + encFloat(v) + ")"}
}

var c06StrRunes = []rune{'a', 'b', 'Z', '0', ' ', '\'', '"', '\\', '\n', '\t', 0, 0x7f, 0xe9, 0x20ac, 0x1f600, '{', '#', '\r', 7, 8, 12, 11, 'n', 'x', 'u', 'N', 0xff, '7', '8', '9', 1, 0o12, 0o77, 'd', '.', '\\', 'Z'}

func (c *c06Gen) strValue(maxLen int) string {
	n := c.g.Int(0, maxLen)
	var sb strings.Builder
	for i := 0; i < n; i++ {
		sb.WriteRune(c06StrRunes[c.g.N(len(c06StrRunes))])
	}
	if c.g.Chance(1, 12) {
		// a backslash followed by a newline, between printable characters: the one value a raw string can spell across two lines
		return "p" + sb.String() + "z\\\nq"
	}
	return sb.String()
}

// spellStr spells value as a python str literal
func (c *c06Gen) spellStr(value string) string {
	g := c.g
	rs := []rune(value)
	rawOK := true
	for _, r := range rs {
		if r == '\\' || r == '\'' || r == '"' || r < 0x20 || r == 0x7f {
			rawOK = false
		}
	}
	if rawOK && g.Chance(1, 4) {
		c.nperturb["raw-string"] = true
		q := g.Str("'", "\"")
		return g.Str("r", "R") + q + value + q
	}
	// raw string containing backslashes that are not escapes
	if g.Chance(1, 8) || (strings.Contains(value, "\\\n") && g.Bool()) {
		ok := true
		for i, r := range rs {
			nbs := 0
			for j := i - 1; j >= 0 && rs[j] == '\\'; j-- {
				nbs++
			}
			if r == '\n' && nbs%2 == 1 {
				// in a raw string a backslash and the newline after it are both part of the value (and the literal goes on)
				c.nperturb["raw-string-backslash-newline"] = true
				continue
			}
			if r == '\'' || r == '"' || r < 0x20 || r == 0x7f {
				ok = false
			}
		}
		if ok && !strings.HasSuffix(value, "\\") {
			c.nperturb["raw-string"] = true
			q := g.Str("'", "\"")
			return g.Str("r", "R") + q + value + q
		}
	}
	prefix := g.Str("", "", "", "u", "U")
	quote := g.Str("'", "\"", "'''", "\"\"\"")
	if len(quote) == 3 {
		c.nperturb["triple-quote"] = true
	}
	qc := rune(quote[0])
	var sb strings.Builder
	sb.WriteString(prefix + quote)
	forceLiteral := false
	for i, r := range rs {
		if forceLiteral {
			// the character after a bare backslash is written as itself
			forceLiteral = false
			sb.WriteRune(r)
			continue
		}
		literalOK := r >= 0x20 && r != 0x7f && r != '\\' && r != qc
		if len(quote) == 3 && (r == '\n') {
			literalOK = true
		}
		if len(quote) == 3 && r == qc {
			// a single quote char is fine inside a triple-quoted string unless it would end it
			literalOK = i+1 < len(rs) && rs[i+1] != qc && (i == 0 || rs[i-1] != qc)
		}
		if literalOK && !g.Chance(1, 5) {
			sb.WriteRune(r)
			if len(quote) == 1 && g.Chance(1, 25) {
				// a line join in the middle of the literal
				c.nperturb["string-continuation"] = true
				sb.WriteString("\\\n")
			}
			continue
		}
		if r < 0o100 && i+1 < len(rs) && rs[i+1] >= '0' && rs[i+1] <= '7' && g.Chance(1, 2) {
			// a short octal escape ended by a line join: the digit on the next line is a character of its own
			c.nperturb["string-escape"] = true
			c.nperturb["escape-ended-by-line-join"] = true
			fmt.Fprintf(&sb, "\\%o\\\n", r)
			continue
		}
		c.nperturb["string-escape"] = true
		var opts []string
		switch r {
		case '\n':
			opts = append(opts, "\\n")
		case '\t':
			opts = append(opts, "\\t")
		case '\r':
			opts = append(opts, "\\r")
		case '\\':
			opts = append(opts, "\\\\")
			// a backslash before a character that starts no escape sequence stands for itself
			if i+1 < len(rs) && strings.ContainsRune("Z #{%.dceghijklmopqswyz", rs[i+1]) {
				opts = append(opts, "\\", "\\", "\\")
				c.nperturb["unrecognised-escape"] = true
			}
		case '\'':
			opts = append(opts, "\\'")
		case '"':
			opts = append(opts, "\\\"")
		case 7:
			opts = append(opts, "\\a")
		case 8:
			opts = append(opts, "\\b")
		case 12:
			opts = append(opts, "\\f")
		case 11:
			opts = append(opts, "\\v")
		}
		if r < 0x100 {
			opts = append(opts, fmt.Sprintf("\\x%02x", r), fmt.Sprintf("\\x%02X", r))
			// octal: up to three digits; shorter forms only if the next char is not an octal digit
			nextOct := i+1 < len(rs) && rs[i+1] >= '0' && rs[i+1] <= '7'
			opts = append(opts, fmt.Sprintf("\\%03o", r))
			if !nextOct {
				// one or two digits: a following 8 or 9 is not part of the escape
				opts = append(opts, fmt.Sprintf("\\%o", r))
				if r < 0o100 {
					opts = append(opts, fmt.Sprintf("\\%02o", r))
				}
				if i+1 < len(rs) && (rs[i+1] == '8' || rs[i+1] == '9') {
					opts = append(opts, fmt.Sprintf("\\%o", r), fmt.Sprintf("\\%o", r))
				}
			}
		}
		if r < 0x10000 {
			opts = append(opts, fmt.Sprintf("\\u%04x", r), fmt.Sprintf("\\u%04X", r))
		}
		opts = append(opts, fmt.Sprintf("\\U%08x", r))
		choice := opts[g.N(len(opts))]
		if choice == "\\" {
			forceLiteral = true
		}
		sb.WriteString(choice)
	}
	if g.Chance(1, 10) {
		// backslash-newline inside a (non-raw) literal is a line continuation and contributes nothing
		c.nperturb["string-continuation"] = true
		sb.WriteString("\\\n")
	}
	sb.WriteString(quote)
	return sb.String()
}

func (c *c06Gen) strLit() frag {
	c.use("str")
	n := 1
	if c.g.Chance(1, 5) {
		n = c.g.Int(2, 3)
		c.nperturb["implicit-concat"] = true
	}
	var toks []string
	var value string
	for i := 0; i < n; i++ {
		v := c.strValue(6)
		value += v
		toks = append(toks, c.spellStr(v))
	}
	return frag{toks, pAtom, "str(" + encStr(value) + ")"}
}

func (c *c06Gen) bytesLit() frag {
	c.use("bytes")
	g := c.g
	n := g.Int(0, 5)
	val := make([]byte, n)
	prefix := g.Str("b", "B")
	raw := g.Chance(1, 5)
	if raw {
		prefix = g.Str("br", "Br", "bR", "BR", "rb", "rB", "Rb", "RB")
	}
	quote := g.Str("'", "\"")
	var sb strings.Builder
	sb.WriteString(prefix + quote)
	if !raw {
		for i := range val {
			val[i] = byte(g.N(256))
			if g.Chance(1, 4) {
				val[i] = g.Str("7", "8", "9", "\x01", "\n", "?")[0]
			}
		}
	}
	for i := range val {
		if raw {
			val[i] = byte(g.Str("a", "z", " ", "0", "#")[0])
			sb.WriteByte(val[i])
			continue
		}
		b := val[i]
		lit := b >= 0x20 && b < 0x7f && b != '\\' && b != quote[0]
		if lit && !g.Chance(1, 4) {
			sb.WriteByte(b)
			continue
		}
		nextOct := i+1 < len(val) && val[i+1] >= '0' && val[i+1] <= '7'
		if !nextOct && g.Chance(1, 3) {
			// short octal escape: a following 8 or 9 is not part of it
			if b < 0o100 && g.Chance(1, 2) {
				fmt.Fprintf(&sb, "\\%02o", b)
			} else {
				fmt.Fprintf(&sb, "\\%o", b)
			}
			continue
		}
		switch g.N(3) {
		case 0:
			fmt.Fprintf(&sb, "\\x%02x", b)
		case 1:
			fmt.Fprintf(&sb, "\\%03o", b)
		default:
			switch b {
			case '\n':
				sb.WriteString("\\n")
			case '\\':
				sb.WriteString("\\\\")
			case '\'':
				sb.WriteString("\\'")
			case '"':
				sb.WriteString("\\\"")
			default:
				fmt.Fprintf(&sb, "\\x%02X", b)
			}
		}
	}
	sb.WriteString(quote)
	return frag{tk(sb.String()), pAtom, fmt.Sprintf("bytes(b(%x))", val)}
}

// ---------------------------------------------------------------- expressions

func (c *c06Gen) exprList(n int, need int, depth int) ([][]string, []string) {
	var toks [][]string
	var canons []string
	for i := 0; i < n; i++ {
		f := c.expr(depth)
		toks = append(toks, c.paren(f, need))
		canons = append(canons, f.canon)
	}
	return toks, canons
}

// commaJoin joins items with commas; trailing adds an optional trailing comma when allowed
func (c *c06Gen) commaJoin(items [][]string, trailingOK bool) []string {
	var out []string
	for i, it := range items {
		if i > 0 {
			out = append(out, ",")
		}
		out = append(out, it...)
	}
	if trailingOK && len(items) > 0 && c.g.Chance(1, 6) {
		c.nperturb["trailing-comma"] = true
		out = append(out, ",")
	}
	return out
}

func (c *c06Gen) comprehensionClauses(depth int) ([]string, string) {
	g := c.g
	n := 1
	if g.Chance(1, 4) {
		n = 2
	}
	var toks []string
	var canons []string
	for i := 0; i < n; i++ {
		tgt := c.target(depth-1, false)
		it := c.expr(depth - 1)
		toks = append(toks, "for")
		toks = append(toks, tgt.toks...)
		toks = append(toks, "in")
		toks = append(toks, c.paren(it, pOr)...)
		var ifs []string
		nif := g.Weighted(3, 2, 1)
		for k := 0; k < nif; k++ {
			cond := c.expr(depth - 1)
			toks = append(toks, "if")
			// test_nocond: no conditional expression or lambda without parentheses
			toks = append(toks, c.paren(cond, pOr)...)
			ifs = append(ifs, cond.canon)
		}
		canons = append(canons, "comprehension("+tgt.canon+","+it.canon+",["+strings.Join(ifs, ",")+"])")
	}
	return toks, "[" + strings.Join(canons, ",") + "]"
}

func (c *c06Gen) atom(depth int) frag {
	g := c.g
	if depth <= 0 || c.budget <= 0 {
		switch g.N(3) {
		case 0:
			return c.intLit()
		default:
			return c.name("load")
		}
	}
	c.budget--
	switch g.Weighted(6, 3, 2, 2, 1, 2, 1, 2, 2, 1, 2, 2) {
	case 0:
		return c.name("load")
	case 1:
		return c.intLit()
	case 2:
		return c.floatLit()
	case 3:
		return c.strLit()
	case 4:
		return c.bytesLit()
	case 5:
		c.use("nameconstant")
		k := g.N(3)
		return frag{tk([]string{"None", "True", "False"}[k]), pAtom, "nameconstant(" + []string{"N", "T", "F"}[k] + ")"}
	case 6:
		c.use("ellipsis")
		return frag{tk("..."), pAtom, "ellipsis"}
	case 7:
		c.use("tuple")
		n := g.Int(0, 3)
		items, canons := c.exprList(n, pIfExp, depth-1)
		var toks []string
		if n == 1 {
			toks = cat(tk("("), items[0], tk(",", ")"))
		} else {
			toks = cat(tk("("), c.commaJoin(items, n > 0), tk(")"))
		}
		return frag{toks, pAtom, "tuple([" + strings.Join(canons, ",") + "],load)"}
	case 8:
		c.use("list")
		n := g.Int(0, 3)
		items, canons := c.exprList(n, pIfExp, depth-1)
		return frag{cat(tk("["), c.commaJoin(items, true), tk("]")), pAtom, "list([" + strings.Join(canons, ",") + "],load)"}
	case 9:
		c.use("set")
		n := g.Int(1, 3)
		items, canons := c.exprList(n, pIfExp, depth-1)
		return frag{cat(tk("{"), c.commaJoin(items, true), tk("}")), pAtom, "set([" + strings.Join(canons, ",") + "])"}
	case 10:
		c.use("dict")
		n := g.Int(0, 3)
		var items [][]string
		var ks, vs []string
		for i := 0; i < n; i++ {
			k, v := c.expr(depth-1), c.expr(depth-1)
			items = append(items, cat(c.paren(k, pIfExp), tk(":"), c.paren(v, pIfExp)))
			ks = append(ks, k.canon)
			vs = append(vs, v.canon)
		}
		return frag{cat(tk("{"), c.commaJoin(items, true), tk("}")), pAtom, "dict([" + strings.Join(ks, ",") + "],[" + strings.Join(vs, ",") + "])"}
	default:
		c.use("comprehension")
		elt := c.expr(depth - 1)
		switch g.N(4) {
		case 0:
			cl, cc := c.comprehensionClauses(depth)
			return frag{cat(tk("["), c.paren(elt, pIfExp), cl, tk("]")), pAtom, "listcomp(" + elt.canon + "," + cc + ")"}
		case 1:
			cl, cc := c.comprehensionClauses(depth)
			return frag{cat(tk("{"), c.paren(elt, pIfExp), cl, tk("}")), pAtom, "setcomp(" + elt.canon + "," + cc + ")"}
		case 2:
			v := c.expr(depth - 1)
			cl, cc := c.comprehensionClauses(depth)
			return frag{cat(tk("{"), c.paren(elt, pIfExp), tk(":"), c.paren(v, pIfExp), cl, tk("}")), pAtom, "dictcomp(" + elt.canon + "," + v.canon + "," + cc + ")"}
		default:
			cl, cc := c.comprehensionClauses(depth)
			return frag{cat(tk("("), c.paren(elt, pIfExp), cl, tk(")")), pAtom, "generatorexp(" + elt.canon + "," + cc + ")"}
		}
	}
}

func (c *c06Gen) sliceItem(depth int) ([]string, string) {
	g := c.g
	if g.Chance(1, 2) {
		e := c.expr(depth - 1)
		return c.paren(e, pIfExp), "index(" + e.canon + ")"
	}
	c.use("slice")
	part := func() ([]string, string) {
		if g.Chance(1, 3) {
			return nil, "None"
		}
		e := c.expr(depth - 1)
		return c.paren(e, pIfExp), e.canon
	}
	lt, lc := part()
	ut, uc := part()
	toks := cat(lt, tk(":"), ut)
	sc := "None"
	if g.Chance(1, 3) {
		st, c2 := part()
		toks = cat(toks, tk(":"), st)
		sc = c2
	}
	return toks, "slice(" + lc + "," + uc + "," + sc + ")"
}

// trailer applies attribute / subscript / call to a base expression
func (c *c06Gen) trailer(base frag, depth int, ctx string) frag {
	g := c.g
	bt := base.toks
	if base.prec < pAtom || (len(bt) == 1 && len(bt[0]) > 0 && bt[0][0] >= '0' && bt[0][0] <= '9') || (len(bt) == 1 && bt[0][0] == '.') {
		// numbers need parentheses before a trailer ("1.real" is a float followed by a name)
		bt = cat(tk("("), bt, tk(")"))
	}
	switch g.Weighted(3, 3, 3) {
	case 0:
		c.use("attribute")
		n := c.ident()
		return frag{cat(bt, tk(".", n)), pAtom, "attribute(" + base.canon + ",id:" + n + "," + ctx + ")"}
	case 1:
		c.use("subscript")
		ndims := 1
		if g.Chance(1, 5) {
			ndims = g.Int(2, 3)
		}
		if ndims == 1 {
			st, sc := c.sliceItem(depth)
			return frag{cat(bt, tk("["), st, tk("]")), pAtom, "subscript(" + base.canon + "," + sc + "," + ctx + ")"}
		}
		var items [][]string
		var canons []string
		allIndex := true
		for i := 0; i < ndims; i++ {
			st, sc := c.sliceItem(depth)
			items = append(items, st)
			canons = append(canons, sc)
			if !strings.HasPrefix(sc, "index(") {
				allIndex = false
			}
		}
		toks := cat(bt, tk("["), c.commaJoin(items, false), tk("]"))
		if allIndex {
			// a[1, 2] is an index by a tuple
			var elts []string
			for _, sc := range canons {
				elts = append(elts, strings.TrimSuffix(strings.TrimPrefix(sc, "index("), ")"))
			}
			return frag{toks, pAtom, "subscript(" + base.canon + ",index(tuple([" + strings.Join(elts, ",") + "],load))," + ctx + ")"}
		}
		c.use("extslice")
		return frag{toks, pAtom, "subscript(" + base.canon + ",extslice([" + strings.Join(canons, ",") + "])," + ctx + ")"}
	default:
		c.use("call")
		if ctx != "load" {
			// a call cannot be a target: use an attribute of the call instead
			call := c.call(base, bt, depth)
			n := c.ident()
			return frag{cat(call.toks, tk(".", n)), pAtom, "attribute(" + call.canon + ",id:" + n + "," + ctx + ")"}
		}
		return c.call(base, bt, depth)
	}
}

func (c *c06Gen) call(base frag, bt []string, depth int) frag {
	g := c.g
	if g.Chance(1, 10) {
		// a sole generator expression argument needs no extra parentheses
		elt := c.expr(depth - 1)
		cl, cc := c.comprehensionClauses(depth)
		return frag{cat(bt, tk("("), c.paren(elt, pIfExp), cl, tk(")")), pAtom, "call(" + base.canon + ",[generatorexp(" + elt.canon + "," + cc + ")],[],None,None)"}
	}
	var items [][]string
	var args, kws []string
	np := g.Int(0, 2)
	for i := 0; i < np; i++ {
		e := c.expr(depth - 1)
		items = append(items, c.paren(e, pIfExp))
		args = append(args, e.canon)
	}
	usedKw := map[string]bool{}
	kw := func() {
		n := c.ident()
		for usedKw[n] {
			n += "_"
		}
		usedKw[n] = true
		e := c.expr(depth - 1)
		items = append(items, cat(tk(n, "="), c.paren(e, pIfExp)))
		kws = append(kws, "keyword(id:"+n+","+e.canon+")")
	}
	nk := g.Weighted(3, 2, 1)
	for i := 0; i < nk; i++ {
		kw()
	}
	star, dstar := "None", "None"
	if g.Chance(1, 4) {
		c.use("call-star")
		e := c.expr(depth - 1)
		items = append(items, cat(tk("*"), c.paren(e, pIfExp)))
		star = e.canon
		if g.Chance(1, 3) {
			kw()
		}
	}
	if g.Chance(1, 5) {
		c.use("call-dstar")
		e := c.expr(depth - 1)
		items = append(items, cat(tk("**"), c.paren(e, pIfExp)))
		dstar = e.canon
	}
	trailing := dstar == "None" && star == "None"
	return frag{cat(bt, tk("("), c.commaJoin(items, trailing), tk(")")), pAtom,
		"call(" + base.canon + ",[" + strings.Join(args, ",") + "],[" + strings.Join(kws, ",") + "]," + star + "," + dstar + ")"}
}

var c06BinOps = []struct {
	tok, name string
	prec      int
}{
	{"+", "add", pArith}, {"-", "sub", pArith}, {"*", "mult", pTerm}, {"/", "div", pTerm}, {"//", "floordiv", pTerm}, {"%", "mod", pTerm},
	{"<<", "lshift", pShift}, {">>", "rshift", pShift}, {"&", "bitand", pBitAnd}, {"^", "bitxor", pBitXor}, {"|", "bitor", pBitOr},
}

var c06CmpOps = []struct {
	toks []string
	name string
}{
	{tk("<"), "lt"}, {tk("<="), "lte"}, {tk(">"), "gt"}, {tk(">="), "gte"}, {tk("=="), "eq"}, {tk("!="), "noteq"},
	{tk("in"), "in"}, {tk("not", "in"), "notin"}, {tk("is"), "is"}, {tk("is", "not"), "isnot"},
}

func (c *c06Gen) expr(depth int) frag {
	g := c.g
	if depth <= 0 || c.budget <= 0 {
		return c.atom(0)
	}
	c.budget--
	switch g.Weighted(5, 4, 4, 2, 2, 2, 2, 1, 1, 2) {
	case 0:
		return c.atom(depth)
	case 1:
		return c.trailer(c.atomOrTrailer(depth-1), depth, "load")
	case 2:
		c.use("binop")
		op := c06BinOps[g.N(len(c06BinOps))]
		l, r := c.expr(depth-1), c.expr(depth-1)
		return frag{cat(c.paren(l, op.prec), tk(op.tok), c.paren(r, op.prec+1)), op.prec, "binop(" + l.canon + "," + op.name + "," + r.canon + ")"}
	case 3:
		c.use("power")
		l, r := c.expr(depth-1), c.expr(depth-1)
		// left operand must be an atom with trailers; right operand may be a unary expression or a power
		return frag{cat(c.paren(l, pAtom), tk("**"), c.paren(r, pUnary)), pPower, "binop(" + l.canon + ",pow," + r.canon + ")"}
	case 4:
		c.use("unary")
		k := g.N(3)
		o := c.expr(depth - 1)
		return frag{cat(tk([]string{"-", "+", "~"}[k]), c.paren(o, pUnary)), pUnary, "unaryop(" + []string{"usub", "uadd", "invert"}[k] + "," + o.canon + ")"}
	case 5:
		c.use("not")
		o := c.expr(depth - 1)
		return frag{cat(tk("not"), c.paren(o, pNot)), pNot, "unaryop(not," + o.canon + ")"}
	case 6:
		c.use("compare")
		n := g.Int(1, 3)
		l := c.expr(depth - 1)
		toks := c.paren(l, pBitOr)
		var ops, comps []string
		for i := 0; i < n; i++ {
			op := c06CmpOps[g.N(len(c06CmpOps))]
			r := c.expr(depth - 1)
			toks = cat(toks, op.toks, c.paren(r, pBitOr))
			ops = append(ops, op.name)
			comps = append(comps, r.canon)
		}
		return frag{toks, pCmp, "compare(" + l.canon + ",[" + strings.Join(ops, ",") + "],[" + strings.Join(comps, ",") + "])"}
	case 7:
		c.use("boolop")
		isAnd := g.Bool()
		prec, tok, name := pOr, "or", "or"
		if isAnd {
			prec, tok, name = pAnd, "and", "and"
		}
		n := g.Int(2, 3)
		var toks []string
		var vals []string
		for i := 0; i < n; i++ {
			v := c.expr(depth - 1)
			if i > 0 {
				toks = append(toks, tok)
			}
			toks = append(toks, c.paren(v, prec+1)...)
			vals = append(vals, v.canon)
		}
		return frag{toks, prec, "boolop(" + name + ",[" + strings.Join(vals, ",") + "])"}
	case 8:
		c.use("ifexp")
		body, test, orelse := c.expr(depth-1), c.expr(depth-1), c.expr(depth-1)
		return frag{cat(c.paren(body, pOr), tk("if"), c.paren(test, pOr), tk("else"), c.paren(orelse, pIfExp)), pIfExp, "ifexp(" + test.canon + "," + body.canon + "," + orelse.canon + ")"}
	default:
		c.use("lambda")
		at, ac := c.arguments(depth-1, false)
		body := c.expr(depth - 1)
		return frag{cat(tk("lambda"), at, tk(":"), c.paren(body, pLambda)), pLambda, "lambda(" + ac + "," + body.canon + ")"}
	}
}

func (c *c06Gen) atomOrTrailer(depth int) frag {
	a := c.atom(depth)
	if depth > 0 && c.g.Chance(1, 3) {
		return c.trailer(a, depth, "load")
	}
	return a
}

// arguments generates a parameter list (def with annotations, or lambda without)
func (c *c06Gen) arguments(depth int, annotations bool) ([]string, string) {
	g := c.g
	used := map[string]bool{}
	pname := func() string {
		for {
			n := c.ident()
			if !used[n] {
				used[n] = true
				return n
			}
			n = n + fmt.Sprint(len(used))
			if !used[n] {
				used[n] = true
				return n
			}
		}
	}
	arg := func() ([]string, string) {
		n := pname()
		if annotations && g.Chance(1, 4) {
			c.use("annotation")
			a := c.expr(depth - 1)
			return cat(tk(n, ":"), c.paren(a, pIfExp)), "arg(id:" + n + "," + a.canon + ")"
		}
		return tk(n), "arg(id:" + n + ",None)"
	}
	var items [][]string
	var args, defaults, kwonly, kwdefaults []string
	np := g.Int(0, 3)
	ndef := g.Int(0, np)
	for i := 0; i < np; i++ {
		at, ac := arg()
		if i >= np-ndef {
			d := c.expr(depth - 1)
			at = cat(at, tk("="), c.paren(d, pIfExp))
			defaults = append(defaults, d.canon)
		}
		items = append(items, at)
		args = append(args, ac)
	}
	vararg, kwarg := "None", "None"
	if g.Chance(1, 3) {
		c.use("vararg")
		hasName := g.Chance(2, 3)
		nkw := g.Int(0, 2)
		if !hasName && nkw == 0 {
			nkw = 1 // a bare * must be followed by a named argument
		}
		if hasName {
			at, ac := arg()
			items = append(items, cat(tk("*"), at))
			vararg = ac
		} else {
			items = append(items, tk("*"))
		}
		// keyword-only: those with defaults first is the problematic order only for the known finding; generate both
		for i := 0; i < nkw; i++ {
			c.use("kwonly")
			at, ac := arg()
			hasDef := g.Bool()
			if !c.r.SwitchOn("c06.kwonly.nodefault_mixed") {
				// known finding: kw_defaults is compacted; keep every kw-only parameter with a default
				c.r.On("c06.kwonly.nodefault_mixed")
				hasDef = true
			}
			if hasDef {
				d := c.expr(depth - 1)
				at = cat(at, tk("="), c.paren(d, pIfExp))
				kwdefaults = append(kwdefaults, d.canon)
			} else {
				kwdefaults = append(kwdefaults, "None")
			}
			items = append(items, at)
			kwonly = append(kwonly, ac)
		}
	}
	if g.Chance(1, 4) {
		c.use("kwarg")
		at, ac := arg()
		items = append(items, cat(tk("**"), at))
		kwarg = ac
	}
	canon := "arguments([" + strings.Join(args, ",") + "]," + vararg + ",[" + strings.Join(kwonly, ",") + "],[" + strings.Join(kwdefaults, ",") + "]," + kwarg + ",[" + strings.Join(defaults, ",") + "])"
	trailing := vararg == "None" && kwarg == "None" && len(kwonly) == 0
	return c.commaJoin(items, trailing && false), canon
}

// target generates an assignment target (Store context)
func (c *c06Gen) target(depth int, allowStar bool) frag {
	g := c.g
	if depth <= 0 || c.budget <= 0 {
		return c.name("store")
	}
	switch g.Weighted(5, 3, 2) {
	case 0:
		return c.name("store")
	case 1:
		return c.trailer(c.atomOrTrailer(depth-1), depth, "store")
	default:
		c.use("tuple-target")
		n := g.Int(1, 3)
		var items [][]string
		var canons []string
		starAt := -1
		if allowStar && g.Chance(1, 3) {
			starAt = g.N(n)
			c.use("starred-target")
		}
		for i := 0; i < n; i++ {
			t := c.target(depth-1, false)
			tt := t.toks
			if t.prec == 0 {
				tt = cat(tk("("), tt, tk(")")) // a nested bare tuple needs its parentheses
			}
			if i == starAt {
				items = append(items, cat(tk("*"), tt))
				canons = append(canons, "starred("+t.canon+",store)")
			} else {
				items = append(items, tt)
				canons = append(canons, t.canon)
			}
		}
		switch g.N(3) {
		case 0:
			return frag{cat(tk("["), c.commaJoin(items, true), tk("]")), pAtom, "list([" + strings.Join(canons, ",") + "],store)"}
		case 1:
			toks := cat(tk("("), c.commaJoin(items, n > 1), tk(")"))
			if n == 1 {
				toks = cat(tk("("), items[0], tk(",", ")"))
			}
			return frag{toks, pAtom, "tuple([" + strings.Join(canons, ",") + "],store)"}
		default:
			// unparenthesised tuple (testlist): precedence below everything
			toks := c.commaJoin(items, false)
			if n == 1 {
				toks = cat(items[0], tk(","))
			}
			return frag{toks, 0, "tuple([" + strings.Join(canons, ",") + "],store)"}
		}
	}
}

// testlist generates "a, b" style right-hand sides (a tuple without parentheses) or a single expression
func (c *c06Gen) testlist(depth int) frag {
	if c.g.Chance(1, 5) {
		c.use("bare-tuple")
		n := c.g.Int(1, 3)
		items, canons := c.exprList(n, pIfExp, depth-1)
		toks := c.commaJoin(items, n > 1)
		if n == 1 {
			toks = cat(items[0], tk(","))
		}
		return frag{toks, 0, "tuple([" + strings.Join(canons, ",") + "],load)"}
	}
	return c.expr(depth)
}

// ---------------------------------------------------------------- statements

type stmtOut struct {
	toks   []string
	canon  string
	simple bool
}

func (c *c06Gen) simpleStmt(depth int) stmtOut {
	g := c.g
	w := []int{4, 4, 2, 2, 1, 2, 2, 2, 1, 1, 1, 1, 1}
	if c.inLoop == 0 {
		w[8] = 0
	}
	if c.inFunc == 0 {
		w[9], w[10], w[11] = 0, 0, 0
	}
	switch g.Weighted(w...) {
	case 0:
		c.use("expr-stmt")
		e := c.testlist(depth)
		return stmtOut{e.toks, "expr(" + e.canon + ")", true}
	case 1:
		c.use("assign")
		nt := g.Weighted(4, 2, 1) + 1
		var toks []string
		var tcs []string
		for i := 0; i < nt; i++ {
			t := c.target(depth, true)
			toks = cat(toks, t.toks, tk("="))
			tcs = append(tcs, t.canon)
		}
		v := c.testlist(depth)
		return stmtOut{cat(toks, v.toks), "assign([" + strings.Join(tcs, ",") + "]," + v.canon + ")", true}
	case 2:
		c.use("augassign")
		var t frag
		if g.Bool() {
			t = c.name("store")
		} else {
			t = c.trailer(c.atomOrTrailer(depth-1), depth, "store")
		}
		ops := []struct{ tok, name string }{{"+=", "add"}, {"-=", "sub"}, {"*=", "mult"}, {"/=", "div"}, {"//=", "floordiv"}, {"%=", "mod"}, {"**=", "pow"}, {"<<=", "lshift"}, {">>=", "rshift"}, {"&=", "bitand"}, {"|=", "bitor"}, {"^=", "bitxor"}}
		op := ops[g.N(len(ops))]
		v := c.testlist(depth)
		return stmtOut{cat(t.toks, tk(op.tok), v.toks), "augassign(" + t.canon + "," + op.name + "," + v.canon + ")", true}
	case 3:
		c.use("pass")
		return stmtOut{tk("pass"), "pass", true}
	case 4:
		c.use("del")
		n := g.Int(1, 2)
		var items [][]string
		var canons []string
		for i := 0; i < n; i++ {
			var t frag
			if g.Bool() {
				t = c.name("del")
			} else {
				t = c.trailer(c.atomOrTrailer(depth-1), depth, "del")
			}
			items = append(items, t.toks)
			canons = append(canons, t.canon)
		}
		return stmtOut{cat(tk("del"), c.commaJoin(items, false)), "delete([" + strings.Join(canons, ",") + "])", true}
	case 5:
		c.use("import")
		n := g.Int(1, 2)
		var items [][]string
		var canons []string
		for i := 0; i < n; i++ {
			mod := c.ident()
			toks := tk(mod)
			if g.Chance(1, 3) {
				sub := c.ident()
				toks = tk(mod, ".", sub)
				mod = mod + "." + sub
			}
			as := "None"
			if g.Chance(1, 3) {
				a := c.ident()
				toks = cat(toks, tk("as", a))
				as = "id:" + a
			}
			items = append(items, toks)
			canons = append(canons, "alias(id:"+mod+","+as+")")
		}
		return stmtOut{cat(tk("import"), c.commaJoin(items, false)), "import([" + strings.Join(canons, ",") + "])", true}
	case 6:
		c.use("import-from")
		level := g.Weighted(4, 1, 1, 1)
		var toks []string
		toks = append(toks, "from")
		dots := level
		for dots >= 3 && g.Bool() {
			toks = append(toks, "...")
			dots -= 3
		}
		for ; dots > 0; dots-- {
			toks = append(toks, ".")
		}
		mod := "None"
		if level == 0 || g.Bool() {
			m := c.ident()
			toks = append(toks, m)
			mod = "id:" + m
			if g.Chance(1, 4) {
				s := c.ident()
				toks = append(toks, ".", s)
				mod += "." + s
			}
		}
		toks = append(toks, "import")
		if g.Chance(1, 5) {
			toks = append(toks, "*")
			return stmtOut{toks, "importfrom(" + mod + ",[alias(id:*,None)],n" + fmt.Sprint(level) + ")", true}
		}
		n := g.Int(1, 3)
		var items [][]string
		var canons []string
		for i := 0; i < n; i++ {
			nm := c.ident()
			it := tk(nm)
			as := "None"
			if g.Chance(1, 3) {
				a := c.ident()
				it = append(it, "as", a)
				as = "id:" + a
			}
			items = append(items, it)
			canons = append(canons, "alias(id:"+nm+","+as+")")
		}
		if g.Chance(1, 3) {
			c.nperturb["import-parens"] = true
			toks = cat(toks, tk("("), c.commaJoin(items, true), tk(")"))
		} else {
			toks = cat(toks, c.commaJoin(items, false))
		}
		return stmtOut{toks, "importfrom(" + mod + ",[" + strings.Join(canons, ",") + "],n" + fmt.Sprint(level) + ")", true}
	case 7:
		if g.Bool() {
			c.use("raise")
			switch g.N(3) {
			case 0:
				return stmtOut{tk("raise"), "raise(None,None)", true}
			case 1:
				e := c.expr(depth)
				return stmtOut{cat(tk("raise"), c.paren(e, pIfExp)), "raise(" + e.canon + ",None)", true}
			default:
				e, f := c.expr(depth), c.expr(depth)
				return stmtOut{cat(tk("raise"), c.paren(e, pIfExp), tk("from"), c.paren(f, pIfExp)), "raise(" + e.canon + "," + f.canon + ")", true}
			}
		}
		c.use("assert")
		e := c.expr(depth)
		if g.Bool() {
			m := c.expr(depth)
			return stmtOut{cat(tk("assert"), c.paren(e, pIfExp), tk(","), c.paren(m, pIfExp)), "assert(" + e.canon + "," + m.canon + ")", true}
		}
		return stmtOut{cat(tk("assert"), c.paren(e, pIfExp)), "assert(" + e.canon + ",None)", true}
	case 8:
		c.use("break-continue")
		if g.Bool() {
			return stmtOut{tk("break"), "break", true}
		}
		return stmtOut{tk("continue"), "continue", true}
	case 9:
		c.use("return")
		if g.Bool() {
			return stmtOut{tk("return"), "return(None)", true}
		}
		e := c.testlist(depth)
		return stmtOut{cat(tk("return"), e.toks), "return(" + e.canon + ")", true}
	case 10:
		c.use("yield")
		switch g.N(4) {
		case 0:
			return stmtOut{tk("yield"), "expr(yield(None))", true}
		case 1:
			e := c.testlist(depth)
			return stmtOut{cat(tk("yield"), e.toks), "expr(yield(" + e.canon + "))", true}
		case 2:
			e := c.expr(depth)
			return stmtOut{cat(tk("yield", "from"), c.paren(e, pIfExp)), "expr(yieldfrom(" + e.canon + "))", true}
		default:
			t := c.name("store")
			e := c.expr(depth)
			return stmtOut{cat(t.toks, tk("=", "yield"), c.paren(e, pIfExp)), "assign([" + t.canon + "],yield(" + e.canon + "))", true}
		}
	case 11:
		c.use("global-nonlocal")
		kw := g.Str("global", "nonlocal")
		n := g.Int(1, 2)
		var items [][]string
		var canons []string
		for i := 0; i < n; i++ {
			nm := "g" + fmt.Sprint(g.Int(0, 3))
			items = append(items, tk(nm))
			canons = append(canons, "id:"+nm)
		}
		return stmtOut{cat(tk(kw), c.commaJoin(items, false)), kw + "([" + strings.Join(canons, ",") + "])", true}
	default:
		c.use("expr-stmt")
		s := c.strLit()
		return stmtOut{s.toks, "expr(" + s.canon + ")", true}
	}
}

// suite generates ":" body, either as an indented block or as simple statements on the same line
func (c *c06Gen) suite(depth int) ([]string, string) {
	g := c.g
	if g.Chance(1, 4) {
		c.nperturb["one-line-suite"] = true
		n := g.Int(1, 2)
		var toks []string
		var canons []string
		for i := 0; i < n; i++ {
			s := c.simpleStmt(depth - 1)
			if i > 0 {
				toks = append(toks, ";")
			}
			toks = append(toks, s.toks...)
			canons = append(canons, s.canon)
		}
		if g.Chance(1, 6) {
			toks = append(toks, ";")
		}
		return cat(tk(":"), toks, tk(tNL)), "[" + strings.Join(canons, ",") + "]"
	}
	n := g.Int(1, 3)
	toks := tk(":", tNL, tIN)
	var canons []string
	for i := 0; i < n; i++ {
		st, sc := c.stmtLine(depth - 1)
		toks = append(toks, st...)
		canons = append(canons, sc...)
	}
	toks = append(toks, tDE)
	return toks, "[" + strings.Join(canons, ",") + "]"
}

// stmtLine generates one logical line: a compound statement, or simple statements joined by semicolons
func (c *c06Gen) stmtLine(depth int) ([]string, []string) {
	g := c.g
	if depth > 0 && c.budget > 0 && g.Chance(2, 5) {
		t, cn := c.compound(depth)
		return t, []string{cn}
	}
	n := 1
	if g.Chance(1, 6) {
		n = g.Int(2, 3)
		c.nperturb["semicolons"] = true
	}
	var toks []string
	var canons []string
	for i := 0; i < n; i++ {
		s := c.simpleStmt(depth)
		if i > 0 {
			toks = append(toks, ";")
		}
		toks = append(toks, s.toks...)
		canons = append(canons, s.canon)
	}
	if g.Chance(1, 10) {
		toks = append(toks, ";")
		c.nperturb["semicolons"] = true
	}
	return append(toks, tNL), canons
}

func (c *c06Gen) decorators(depth int) ([]string, string) {
	g := c.g
	n := g.Weighted(4, 2, 1)
	var toks []string
	var canons []string
	for i := 0; i < n; i++ {
		c.use("decorator")
		nm := c.ident()
		dc := "name(id:" + nm + ",load)"
		dt := tk("@", nm)
		if c.r.SwitchOn("c06.decorator.dotted") && g.Chance(1, 3) {
			a := c.ident()
			dt = append(dt, ".", a)
			dc = "attribute(" + dc + ",id:" + a + ",load)"
		}
		if g.Chance(1, 3) {
			f := c.call(frag{dt[1:], pAtom, dc}, dt[1:], depth-1)
			dt = cat(tk("@"), f.toks)
			dc = f.canon
		}
		toks = cat(toks, dt, tk(tNL))
		canons = append(canons, dc)
	}
	return toks, "[" + strings.Join(canons, ",") + "]"
}

func (c *c06Gen) compound(depth int) ([]string, string) {
	g := c.g
	c.budget--
	switch g.Weighted(3, 2, 2, 2, 2, 3, 2) {
	case 0:
		c.use("if")
		test := c.expr(depth - 1)
		bt, bc := c.suite(depth)
		toks := cat(tk("if"), c.paren(test, pIfExp), bt)
		// elif chain nests in orelse
		type br struct{ test, body string }
		var elifs []br
		for g.Chance(1, 3) && len(elifs) < 2 {
			t2 := c.expr(depth - 1)
			b2t, b2c := c.suite(depth)
			toks = cat(toks, tk("elif"), c.paren(t2, pIfExp), b2t)
			elifs = append(elifs, br{t2.canon, b2c})
		}
		orelse := "[]"
		if g.Chance(1, 3) {
			et, ec := c.suite(depth)
			toks = cat(toks, tk("else"), et)
			orelse = ec
		}
		for i := len(elifs) - 1; i >= 0; i-- {
			orelse = "[if(" + elifs[i].test + "," + elifs[i].body + "," + orelse + ")]"
		}
		return toks, "if(" + test.canon + "," + bc + "," + orelse + ")"
	case 1:
		c.use("for")
		var tgt frag
		if c.r.SwitchOn("c06.for.target_trailing_comma") {
			tgt = c.target(depth-1, true)
		} else {
			tgt = c.target(depth-1, true)
			// known finding: "for x, in y" loses the tuple; avoid unparenthesised one-element targets
			if tgt.prec == 0 && strings.Count(tgt.canon, ",store)") >= 0 && len(tgt.toks) > 0 && tgt.toks[len(tgt.toks)-1] == "," {
				c.r.On("c06.for.target_trailing_comma")
				tgt = c.name("store")
			}
		}
		it := c.testlist(depth - 1)
		c.inLoop++
		bt, bc := c.suite(depth)
		c.inLoop--
		toks := cat(tk("for"), tgt.toks, tk("in"), it.toks, bt)
		orelse := "[]"
		if g.Chance(1, 3) {
			et, ec := c.suite(depth)
			toks = cat(toks, tk("else"), et)
			orelse = ec
		}
		return toks, "for(" + tgt.canon + "," + it.canon + "," + bc + "," + orelse + ")"
	case 2:
		c.use("while")
		test := c.expr(depth - 1)
		c.inLoop++
		bt, bc := c.suite(depth)
		c.inLoop--
		toks := cat(tk("while"), c.paren(test, pIfExp), bt)
		orelse := "[]"
		if g.Chance(1, 3) {
			et, ec := c.suite(depth)
			toks = cat(toks, tk("else"), et)
			orelse = ec
		}
		return toks, "while(" + test.canon + "," + bc + "," + orelse + ")"
	case 3:
		c.use("try")
		bt, bc := c.suite(depth)
		toks := cat(tk("try"), bt)
		nh := g.Int(0, 2)
		var handlers []string
		for i := 0; i < nh; i++ {
			typ, name := "None", "None"
			ht := tk("except")
			if !(i == nh-1 && g.Chance(1, 3)) {
				e := c.expr(depth - 1)
				ht = cat(ht, c.paren(e, pIfExp))
				typ = e.canon
				if g.Bool() {
					n := c.ident()
					ht = append(ht, "as", n)
					name = "id:" + n
				}
			}
			st, sc := c.suite(depth)
			toks = cat(toks, ht, st)
			handlers = append(handlers, "excepthandler("+typ+","+name+","+sc+")")
		}
		orelse, final := "[]", "[]"
		if nh > 0 && g.Chance(1, 3) {
			et, ec := c.suite(depth)
			toks = cat(toks, tk("else"), et)
			orelse = ec
		}
		if nh == 0 || g.Chance(1, 3) {
			ft, fc := c.suite(depth)
			toks = cat(toks, tk("finally"), ft)
			final = fc
		}
		return toks, "try(" + bc + ",[" + strings.Join(handlers, ",") + "]," + orelse + "," + final + ")"
	case 4:
		c.use("with")
		n := g.Weighted(3, 1) + 1
		var items [][]string
		var canons []string
		for i := 0; i < n; i++ {
			e := c.expr(depth - 1)
			it := c.paren(e, pIfExp)
			v := "None"
			if g.Bool() {
				t := c.target(depth-1, false)
				if t.prec == 0 {
					t = c.name("store")
				}
				it = cat(it, tk("as"), t.toks)
				v = t.canon
			}
			items = append(items, it)
			canons = append(canons, "withitem("+e.canon+","+v+")")
		}
		bt, bc := c.suite(depth)
		return cat(tk("with"), c.commaJoin(items, false), bt), "with([" + strings.Join(canons, ",") + "]," + bc + ")"
	case 5:
		c.use("def")
		dt, dc := c.decorators(depth)
		nm := c.ident()
		at, ac := c.arguments(depth-1, true)
		toks := cat(dt, tk("def", nm, "("), at, tk(")"))
		returns := "None"
		if g.Chance(1, 4) {
			rexp := c.expr(depth - 1)
			toks = cat(toks, tk("->"), c.paren(rexp, pIfExp))
			returns = rexp.canon
		}
		c.inFunc++
		saveLoop := c.inLoop
		c.inLoop = 0
		bt, bc := c.suite(depth)
		c.inLoop = saveLoop
		c.inFunc--
		return cat(toks, bt), "functiondef(id:" + nm + "," + ac + "," + bc + "," + dc + "," + returns + ")"
	default:
		c.use("class")
		dt, dc := c.decorators(depth)
		nm := c.ident()
		toks := cat(dt, tk("class", nm))
		bases, kws, star, dstar := "[]", "[]", "None", "None"
		if g.Chance(2, 3) {
			// the argument list of a class statement is a call argument list
			f := c.call(frag{nil, pAtom, "X"}, nil, depth-1)
			// call canon: call(X,[args],[kws],star,dstar)
			inner := strings.TrimSuffix(strings.TrimPrefix(f.canon, "call(X,"), ")")
			parts := splitTopCommas(inner)
			if len(parts) == 4 && !strings.HasPrefix(parts[0], "[generatorexp(") {
				bases, kws, star, dstar = parts[0], parts[1], parts[2], parts[3]
				toks = cat(toks, f.toks)
			} else {
				toks = cat(toks, tk("(", ")"))
			}
		}
		saveLoop, saveFunc := c.inLoop, c.inFunc
		c.inLoop, c.inFunc = 0, 0
		bt, bc := c.suite(depth)
		c.inLoop, c.inFunc = saveLoop, saveFunc
		return cat(toks, bt), "classdef(id:" + nm + "," + bases + "," + kws + "," + star + "," + dstar + "," + bc + "," + dc + ")"
	}
}

// splitTopCommas splits on commas not nested in brackets/parentheses
func splitTopCommas(s string) []string {
	var out []string
	depth, start := 0, 0
	for i := 0; i < len(s); i++ {
		switch s[i] {
		case '(', '[', '{':
			depth++
		case ')', ']', '}':
			depth--
		case ',':
			if depth == 0 {
				out = append(out, s[start:i])
				start = i + 1
			}
		}
	}
	return append(out, s[start:])
}

// ---------------------------------------------------------------- rendering with perturbations

func wordish(b byte) bool {
	return b == '_' || b == '.' || (b >= '0' && b <= '9') || (b >= 'a' && b <= 'z') || (b >= 'A' && b <= 'Z') || b >= 0x80 || b == '\'' || b == '"'
}

func isOpen(t string) bool  { return t == "(" || t == "[" || t == "{" }
func isClose(t string) bool { return t == ")" || t == "]" || t == "}" }

// render joins tokens into source text with generated spacing, comments, continuations and indentation
func (c *c06Gen) render(toks []string, perturb bool) string {
	g := c.g
	var sb strings.Builder
	indents := []string{""}
	depth := 0
	lineStart := true
	prev := ""
	comment := func() string {
		return "#" + g.Str("", " c", " 'x", " \\", " é", "#(")
	}
	for i, t := range toks {
		switch t {
		case tNL:
			if perturb && g.Chance(1, 8) {
				sb.WriteString(g.Str(" ", "  ", "\t"))
				c.nperturb["trailing-space"] = true
			}
			if perturb && g.Chance(1, 8) {
				sb.WriteString(" " + comment())
				c.nperturb["comment"] = true
			}
			nl := "\n"
			if perturb && g.Chance(1, 12) {
				nl = "\r\n"
				c.nperturb["crlf"] = true
				if g.Chance(1, 3) {
					// the old Macintosh form: a bare carriage return ends a physical line too (language reference 2.1.2)
					nl = "\r"
					c.nperturb["bare-cr"] = true
				}
			}
			sb.WriteString(nl)
			if perturb && g.Chance(1, 10) {
				// blank or comment-only lines, with arbitrary indentation
				sb.WriteString(g.Str("", "   ", "\t", "      "))
				if g.Bool() {
					sb.WriteString(comment())
				}
				sb.WriteString("\n")
				c.nperturb["blank-line"] = true
			}
			lineStart = true
			prev = ""
			continue
		case tIN:
			cur := indents[len(indents)-1]
			add := "    "
			if perturb {
				switch {
				case (cur == "" || strings.Trim(cur, "\t") == "") && g.Chance(1, 6):
					add = "\t"
					c.nperturb["indent-width"] = true
				default:
					w := g.Ints(4, 4, 1, 2, 3, 8, 5)
					if w != 4 {
						c.nperturb["indent-width"] = true
					}
					add = strings.Repeat(" ", w)
				}
			}
			indents = append(indents, cur+add)
			continue
		case tDE:
			indents = indents[:len(indents)-1]
			continue
		}
		if lineStart {
			if perturb && g.Chance(1, 40) {
				// a form feed at the start of a line restarts the indentation count (language reference 2.1.8)
				sb.WriteString(g.Str("\f", "  \f", "\t\f", "\f\f"))
				c.nperturb["form-feed"] = true
			}
			sb.WriteString(indents[len(indents)-1])
			lineStart = false
		} else {
			// separator between prev and t
			glueOK := isOpen(prev) || isClose(t) || t == "," || t == ":" || t == ";" || prev == "~" || prev == "@" ||
				((t == "(" || t == "[") && len(prev) > 0 && (wordish(prev[len(prev)-1]) || isClose(prev)) && !isKeyword(prev))
			if len(prev) > 0 && len(t) > 0 && wordish(prev[len(prev)-1]) && wordish(t[0]) {
				glueOK = false
			}
			if (t == "." || prev == ".") && !(len(prev) > 0 && prev[len(prev)-1] >= '0' && prev[len(prev)-1] <= '9') && t != "..." && prev != "..." && prev != "from" && prev != "import" {
				glueOK = true
			}
			sep := " "
			if !perturb {
				if glueOK && (isOpen(prev) || isClose(t) || t == "," || t == ":" || t == "." || prev == "." || t == "(" || t == "[" || prev == "~" || prev == "@") {
					sep = ""
				}
			} else {
				switch {
				case depth > 0 && g.Chance(1, 14) && i > 0:
					// implicit line joining inside brackets, optionally after a comment
					sep = ""
					if g.Bool() {
						sep = " " + comment()
						c.nperturb["comment"] = true
					}
					sep += "\n" + g.Str("", " ", "    ", "\t", "          ")
					c.nperturb["bracket-newline"] = true
				case depth == 0 && g.Chance(1, 25):
					sep = g.Str("", " ") + "\\\n" + g.Str("", "  ", "\t")
					if sep[0] == '\\' && len(prev) > 0 && prev[len(prev)-1] == '\\' {
						sep = " " + sep
					}
					c.nperturb["backslash-continuation"] = true
				case glueOK && g.Chance(2, 3):
					sep = ""
				default:
					sep = g.Str(" ", " ", " ", "  ", "\t", " ", " ", "  ", "\t", "\f", " \f")
					if sep != " " {
						c.nperturb["spacing"] = true
					}
					if strings.Contains(sep, "\f") {
						c.nperturb["form-feed"] = true
					}
				}
			}
			sb.WriteString(sep)
		}
		sb.WriteString(t)
		if isOpen(t) {
			depth++
		} else if isClose(t) {
			depth--
		}
		prev = t
	}
	return sb.String()
}

var pyKeywords = map[string]bool{"False": true, "None": true, "True": true, "and": true, "as": true, "assert": true, "break": true, "class": true, "continue": true, "def": true, "del": true,
	"elif": true, "else": true, "except": true, "finally": true, "for": true, "from": true, "global": true, "if": true, "import": true, "in": true, "is": true, "lambda": true, "nonlocal": true,
	"not": true, "or": true, "pass": true, "raise": true, "return": true, "try": true, "while": true, "with": true, "yield": true}

func isKeyword(s string) bool { return pyKeywords[s] }

var _ = math.Inf

//go:build verif

package harness

import (
	"fmt"
	"strings"
	"sync/atomic"

	"pgregory.net/rapid"
)

// G wraps a rapid.T so generators read naturally. Every random choice goes through rapid,
// so shrinking and replay work.
type G struct {
	T *rapid.T
	n int
}

// rapidDraws counts the values drawn from rapid in this process: a run that drew any is not an exhaustive enumeration
var rapidDraws int64

func (g *G) label(s string) string {
	atomic.AddInt64(&rapidDraws, 1)
	g.n++
	return fmt.Sprintf("%s#%d", s, g.n)
}

// Int draws from [lo, hi].
func (g *G) Int(lo, hi int) int { return rapid.IntRange(lo, hi).Draw(g.T, g.label("i")) }

// N draws from [0, n).
func (g *G) N(n int) int {
	if n <= 1 {
		return 0
	}
	return rapid.IntRange(0, n-1).Draw(g.T, g.label("n"))
}

func (g *G) Bool() bool { return rapid.Bool().Draw(g.T, g.label("b")) }

// Chance is true with probability about num/den (shrinks towards false).
func (g *G) Chance(num, den int) bool { return g.N(den) >= den-num }

func (g *G) Str(xs ...string) string { return xs[g.N(len(xs))] }

func (g *G) Ints(xs ...int) int { return xs[g.N(len(xs))] }

// Weighted picks an index by weight (0 weights are never picked).
func (g *G) Weighted(ws ...int) int {
	tot := 0
	for _, w := range ws {
		tot += w
	}
	if tot == 0 {
		return 0
	}
	x := g.N(tot)
	for i, w := range ws {
		if x < w {
			return i
		}
		x -= w
	}
	return len(ws) - 1
}

// Indent indents every line of s by n spaces.
func Indent(s string, n int) string {
	pad := strings.Repeat(" ", n)
	lines := strings.Split(strings.TrimRight(s, "\n"), "\n")
	for i, l := range lines {
		if l != "" {
			lines[i] = pad + l
		}
	}
	return strings.Join(lines, "\n") + "\n"
}

// ExcLadder wraps a body (already indented by 4 under "try:") in the standard except ladder that
// records the class name of the exception into target (e.g. "_res"). It avoids type(e).__name__,
// which gpython does not support.
var ladderClasses = []string{
	"ZeroDivisionError", "OverflowError", "IndexError", "KeyError", "UnboundLocalError", "NameError", "AttributeError",
	"TypeError", "ValueError", "StopIteration", "ImportError", "AssertionError", "RuntimeError", "NotImplementedError", "SystemError",
}

func ExcLadder(body string, target string, indent int) string {
	var sb strings.Builder
	sb.WriteString("try:\n")
	sb.WriteString(Indent(body, 4))
	for _, c := range ladderClasses {
		fmt.Fprintf(&sb, "except %s:\n    %s.append('%s')\n", c, target, c)
	}
	fmt.Fprintf(&sb, "except Exception:\n    %s.append('Exception')\n", target)
	return Indent(sb.String(), indent)
}

// PyStr renders a Go string as a Python string literal using only ASCII and \uXXXX / \UXXXXXXXX escapes.
func PyStr(s string) string {
	var sb strings.Builder
	sb.WriteByte('\'')
	for _, r := range s {
		switch {
		case r == '\'' || r == '\\':
			sb.WriteByte('\\')
			sb.WriteRune(r)
		case r >= 0x20 && r < 0x7f:
			sb.WriteRune(r)
		case r < 0x100:
			fmt.Fprintf(&sb, "\\x%02x", r)
		case r < 0x10000:
			fmt.Fprintf(&sb, "\\u%04x", r)
		default:
			fmt.Fprintf(&sb, "\\U%08x", r)
		}
	}
	sb.WriteByte('\'')
	return sb.String()
}

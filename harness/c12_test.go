//go:build verif

package harness

// C12 — emitted code objects are well-formed and stack-safe on every path (DESIGN section 6).

import (
	"fmt"
	"os"
	"sort"
	"strings"
	"sync"
	"testing"

	"github.com/go-python/gpython/py"
	"github.com/go-python/gpython/vm"
	"pgregory.net/rapid"
)

type c12Dyn struct {
	mu        sync.Mutex
	reports   map[*py.Code]*BcReport
	mismatch  []string
	confirmed map[vm.OpCode]int64
	skipNext  bool
	executed  int64
}

var c12dyn = &c12Dyn{reports: map[*py.Code]*BcReport{}, confirmed: map[vm.OpCode]int64{}}

func frameShape(f *py.Frame) string {
	var sb strings.Builder
	fmt.Fprintf(&sb, "%d|", len(f.Stack))
	for _, b := range f.Blockstack {
		k := byte('?')
		switch b.Type {
		case py.TryBlockSetupLoop:
			k = 'L'
		case py.TryBlockSetupExcept:
			k = 'X'
		case py.TryBlockSetupFinally:
			k = 'F'
		case py.TryBlockExceptHandler:
			k = 'H'
		}
		fmt.Fprintf(&sb, "%c%d@%d,", k, b.Handler, b.Level)
	}
	return sb.String()
}

func c12Hook(f *py.Frame, op vm.OpCode, arg int32, pc int32) {
	d := c12dyn
	d.mu.Lock()
	defer d.mu.Unlock()
	rep := d.reports[f.Code]
	if rep == nil {
		return
	}
	if d.skipNext {
		// the instruction after an EXTENDED_ARG prefix shares the prefix's state
		d.skipNext = false
		return
	}
	if op == vm.EXTENDED_ARG {
		d.skipNext = true
	}
	d.executed++
	shape := frameShape(f)
	if len(f.Stack) > int(f.Code.Stacksize) {
		if len(d.mismatch) < 5 {
			d.mismatch = append(d.mismatch, fmt.Sprintf("code %q pc %d (%s): actual stack depth %d exceeds the declared stack size %d", f.Code.Name, pc, op, len(f.Stack), f.Code.Stacksize))
		}
		return
	}
	if !rep.States[int(pc)][shape] {
		if len(d.mismatch) < 5 {
			var pred []string
			for s := range rep.States[int(pc)] {
				pred = append(pred, s)
			}
			sort.Strings(pred)
			d.mismatch = append(d.mismatch, fmt.Sprintf("code %q pc %d (%s): VM state %s not among the predicted %v", f.Code.Name, pc, op, shape, pred))
		}
		return
	}
	d.confirmed[op]++
}

// c12Verify verifies all code objects of a compiled program; returns the error signatures
func c12Verify(r *Run, code *py.Code, src string, register bool) []string {
	nlines := strings.Count(src, "\n") + 1
	var errs []string
	for _, c := range AllCodes(code) {
		rep := VerifyCode(c, nlines)
		nt := c.Stacksize >= 4 || len(c.Freevars)+len(c.Cellvars) > 0
		hasSetup, hasJump := false, false
		for op := range rep.OpsSeen {
			switch op {
			case vm.SETUP_LOOP, vm.SETUP_EXCEPT, vm.SETUP_FINALLY, vm.SETUP_WITH:
				hasSetup = true
			case vm.JUMP_FORWARD, vm.JUMP_ABSOLUTE, vm.POP_JUMP_IF_FALSE, vm.POP_JUMP_IF_TRUE, vm.JUMP_IF_FALSE_OR_POP, vm.JUMP_IF_TRUE_OR_POP, vm.FOR_ITER, vm.CONTINUE_LOOP:
				hasJump = true
			}
			r.AddExtra("static_"+op.String(), 1)
		}
		r.Count(fmt.Sprintf("%x|%v|%v|%d", c.Code, c.Names, c.Varnames, c.Stacksize), nt || (hasSetup && hasJump))
		r.AddExtra("code_objects", 1)
		r.AddExtra("instructions", int64(rep.NInstr))
		r.AddExtra("abstract_states", int64(rep.NStates))
		for _, e := range rep.Errors {
			errs = append(errs, c.Name+": "+e)
		}
		if register {
			c12dyn.mu.Lock()
			c12dyn.reports[c] = rep
			c12dyn.mu.Unlock()
		}
	}
	return errs
}

// errClass reduces a verifier message to a class (no numbers)
func c12ErrClass(e string) string {
	if i := strings.Index(e, "): "); i >= 0 {
		op := ""
		if j := strings.LastIndex(e[:i], "("); j >= 0 {
			op = e[j+1 : i]
		}
		msg := e[i+3:]
		var sb strings.Builder
		for _, ch := range msg {
			if ch >= '0' && ch <= '9' {
				continue
			}
			sb.WriteRune(ch)
		}
		return op + ":" + strings.Join(strings.Fields(sb.String()), " ")
	}
	return e
}

func c12Program(r *Run, g *G) (string, string, bool) {
	switch g.Weighted(4, 3, 2, 2, 2) {
	case 0:
		c := &c02Gen{g: g, r: r, maxExit: 3, kinds: map[string]bool{}}
		body := c.block(c02Ctx{depth: 1}, 2)
		fn := "def fn(k):\n" + Indent(body, 4) + "    return 'end'\n"
		return c02Prelude + fn + c02Drive + fmt.Sprintf("for k in range(%d):\n    drive(k)\n", c.exits+1), "control-flow", true
	case 1:
		c := &c01Gen{g: g, r: r, kinds: map[string]bool{}, budget: 14}
		var body string
		if g.Chance(2, 5) {
			st, ret := c.stmt(3)
			body = "def t():\n" + Indent(st, 4) + "    return " + ret + "\n"
		} else {
			body = "def t():\n    return " + c.expr(tAny, 4) + "\n"
		}
		return c01Program(body), "expressions", true
	case 2:
		c := &c03Gen{g: g, r: r, kinds: map[string]bool{}, budget: 30}
		msc := &c03Scope{kind: "module", depth: 1, fnBound: map[string]bool{}, declared: map[string]string{}}
		return c03Prelude + c.body(msc), "scopes", true
	case 3:
		h := &c05Hist{g: g, r: r, kinds: map[string]bool{}}
		var defs strings.Builder
		var names []string
		for i := 0; i < 2; i++ {
			name := fmt.Sprintf("G%d", i)
			defs.WriteString("def " + name + "():\n" + Indent(h.genBody(1, names), 4) + "    if False:\n        yield\n")
			names = append(names, name)
		}
		var hist strings.Builder
		hist.WriteString("g0 = G0()\ng1 = G1()\n")
		for s := 0; s < 8; s++ {
			fmt.Fprintf(&hist, "step(%d, g%d, None)\n", g.N(3)%2*2, g.N(2))
		}
		return c05HistPrelude + defs.String() + hist.String(), "generators", true
	default:
		c := &c06Gen{g: g, r: r, kinds: map[string]bool{}, nperturb: map[string]bool{}, budget: 40}
		var toks []string
		n := g.Int(1, 4)
		for i := 0; i < n; i++ {
			st, _ := c.stmtLine(3)
			toks = append(toks, st...)
		}
		return c.render(toks, false), "grammar", false
	}
}

func TestC12(t *testing.T) {
	r := StartRun(t, "C12")
	defer r.Finish()
	r.Extra("rule", "every code object (recursively through the constants) compiled from programs of the control-flow (C02), expression (C01), scope (C03), generator (C05) and grammar (C06) generators, "+
		"the repository's .py files, a stack-bookkeeping corpus (deep try/finally/with/for nests with break/continue/return at every depth, calls with many keyword arguments, defaults, "+
		"annotations, nested comprehensions) and >64KiB functions. Static oracle: an abstract interpreter over (stack slots, block stack) using the VM's effects: jump targets on instruction "+
		"boundaries, operands index existing constants/names/locals/cells, no underflow, depth <= co_stacksize on every path, blocks balanced and of the right kind, no path runs off the end, "+
		"line table within the source. Dynamic oracle (hook): at every executed instruction the VM's stack depth and block stack are among the predicted states. "+
		"Non-trivial: the code object has a SETUP_* and a jump, or free/cell variables, or stack size >= 4; distinct by bytecode+tables.")
	r.Extra("assumptions", []string{"the verifier's transfer functions are a reading of vm/eval.go; every opcode counted under dynamic_confirmed was cross-checked against the running VM"})
	r.ReplayKnown()
	vm.VerifInstr = c12Hook
	defer func() { vm.VerifInstr = nil }()
	report := func(src, mode string, errs []string, fail func()) {
		seen := map[string]bool{}
		for _, e := range errs {
			cls := c12ErrClass(e)
			if seen[cls] {
				continue
			}
			seen[cls] = true
			if !r.Mismatch(&Case{Kind: "c12", Sig: "static:" + cls, Program: src, Mode: mode, Expected: "well-formed code", Actual: e, Detail: strings.Join(errs, "\n")}) {
				fail()
			}
		}
	}
	runDyn := func(src string, code *py.Code, fail func()) {
		c12dyn.mu.Lock()
		c12dyn.mismatch = nil
		c12dyn.mu.Unlock()
		res := RunProgram(src, RunOpts{Code: code})
		_ = res
		c12dyn.mu.Lock()
		mm := append([]string(nil), c12dyn.mismatch...)
		c12dyn.mu.Unlock()
		if len(mm) > 0 {
			op := "?"
			if i := strings.Index(mm[0], "("); i >= 0 {
				if j := strings.Index(mm[0][i:], ")"); j > 0 {
					op = mm[0][i+1 : i+j]
				}
			}
			kind := "state"
			if strings.Contains(mm[0], "exceeds the declared stack size") {
				kind = "stacksize"
			}
			if !r.Mismatch(&Case{Kind: "c12", Sig: "dynamic:" + kind + ":" + op, Program: src, Mode: "run", Expected: "VM state among the predicted states", Actual: mm[0], Detail: strings.Join(mm, "\n")}) {
				fail()
			}
		}
	}
	noop := func() {}
	if r.Shard == 0 {
		// repository files: static only (they may do I/O when run)
		for _, f := range c11RepoFiles() {
			b, err := os.ReadFile(f)
			if err != nil {
				continue
			}
			code, err := py.Compile(string(b), f, py.ExecMode, 0, true)
			if err != nil {
				continue
			}
			r.Class("repo-file")
			report(string(b), "exec", c12Verify(r, code, string(b), false), noop)
		}
		for _, src := range c12Corpus() {
			code, err := py.Compile(src, "<c12>", py.ExecMode, 0, true)
			if err != nil {
				cls, msg := ErrClass(err)
				r.Mismatch(&Case{Kind: "c12", Sig: "corpus-compile:" + cls, Program: src, Mode: "exec", Expected: "compiles", Actual: msg})
				continue
			}
			r.Class("corpus")
			report(src, "run", c12Verify(r, code, src, true), noop)
			runDyn(src, code, noop)
		}
	}
	rapid.Check(t, func(rt *rapid.T) {
		g := &G{T: rt}
		src, cls, run := c12Program(r, g)
		code, err := py.Compile(src, "<c12>", py.ExecMode, 0, true)
		if err != nil {
			r.Class("rejected-by-compiler")
			return
		}
		r.Class(cls)
		r.Sample(src, src)
		fail := func() { rt.Fatalf("C12 violation") }
		report(src, map[bool]string{true: "run", false: "exec"}[run], c12Verify(r, code, src, run), fail)
		if run {
			runDyn(src, code, fail)
		}
		// forget the registered reports of this program to keep the map small
		c12dyn.mu.Lock()
		for _, c := range AllCodes(code) {
			delete(c12dyn.reports, c)
		}
		c12dyn.mu.Unlock()
	})
	c12dyn.mu.Lock()
	var ops []string
	for op, n := range c12dyn.confirmed {
		r.AddExtra("dynamic_confirmed_"+op.String(), n)
		ops = append(ops, op.String())
	}
	r.AddExtra("dynamic_instructions_checked", c12dyn.executed)
	c12dyn.confirmed = map[vm.OpCode]int64{}
	c12dyn.executed = 0
	c12dyn.mu.Unlock()
}

// c12Corpus: programs aimed at the compiler's stack bookkeeping
func c12Corpus() []string {
	var out []string
	pre := "_log = []\nclass CM:\n    def __init__(self, s):\n        self.s = s\n    def __enter__(self):\n        return self\n    def __exit__(self, t, v, tb):\n        return self.s\n"
	exits := []string{"pass", "break", "continue", "return k", "raise KeyError", "1 // 0"}
	wrappers := []string{
		"try:\n%s\nfinally:\n    _log.append('f')\n",
		"try:\n%s\nexcept KeyError:\n    _log.append('e')\n",
		"try:\n%s\nexcept KeyError as e:\n    _log.append('e')\nelse:\n    _log.append('l')\nfinally:\n    _log.append('f')\n",
		"with CM(False):\n%s\n",
		"with CM(True) as a, CM(False) as b:\n%s\n",
		"for j in range(2):\n%s\nelse:\n    _log.append('x')\n",
		"n = 0\nwhile n < 2:\n    n += 1\n%s\n    break\n",
		"if k:\n%s\nelse:\n    _log.append('n')\n",
	}
	for _, ex := range exits {
		for i, w1 := range wrappers {
			for j, w2 := range wrappers {
				inner := fmt.Sprintf(w2, Indent("_log.append(1)\n"+ex, 4))
				body := fmt.Sprintf(w1, Indent(strings.TrimRight(inner, "\n"), 4))
				needLoop := ex == "break" || ex == "continue"
				fn := "def fn(k):\n    for i in range(2):\n" + Indent(strings.TrimRight(body, "\n"), 8) + "\n    return 'end'\n"
				if !needLoop && (i+j)%2 == 0 {
					fn = "def fn(k):\n" + Indent(strings.TrimRight(body, "\n"), 4) + "\n    return 'end'\n"
				}
				out = append(out, pre+fn+"for k in range(2):\n    try:\n        fn(k)\n    except Exception:\n        pass\n")
			}
		}
	}
	// tail shapes: the compound statement is the LAST statement of the function (no return follows it), and each of its suites
	// ends in a return, a raise or falls through: the implicit "return None" must be there exactly when some path needs it
	tails := []string{
		"if k:\n    %A\nelse:\n    %B\n",
		"if k:\n    %A\nelif k > 1:\n    %B\n",
		"try:\n    if k: raise KeyError\n    %A\nexcept KeyError:\n    %B\nelse:\n    %C\n",
		"try:\n    %A\nfinally:\n    %B\n",
		"for j in range(k):\n    %A\nelse:\n    %B\n",
		"for j in range(2):\n    if k: break\n    %A\nelse:\n    %B\n",
		"n = 0\nwhile n < k:\n    n += 1\n    %A\nelse:\n    %B\n",
		"n = 0\nwhile n < 2:\n    n += 1\n    if k: break\n    %A\nelse:\n    %B\n",
		"with CM(True):\n    %A\n",
		"with CM(False):\n    if k:\n        %A\n",
		"try:\n    if k == 1: raise KeyError\n    %A\nexcept KeyError:\n    %B\nelse:\n    %C\nfinally:\n    %D\n",
	}
	fills := []string{"_log.append(1)", "return k", "raise KeyError", "if k > 1: return 7"}
	for _, tpl := range tails {
		slots := 0
		for _, sl := range []string{"%A", "%B", "%C", "%D"} {
			if strings.Contains(tpl, sl) {
				slots++
			}
		}
		total := 1
		for i := 0; i < slots; i++ {
			total *= len(fills)
		}
		for m := 0; m < total; m++ {
			body, x := tpl, m
			for _, sl := range []string{"%A", "%B", "%C", "%D"}[:slots] {
				body = strings.Replace(body, sl, fills[x%len(fills)], 1)
				x /= len(fills)
			}
			out = append(out, pre+"def fn(k):\n    _log.append(0)\n"+Indent(body, 4)+"for k in range(3):\n    try:\n        _log.append(fn(k))\n    except Exception:\n        _log.append('exc')\n")
		}
	}
	out = append(out,
		"def f(a, b=1, *c, d=2, e=3, **g) -> int:\n    return a\nf(1, 2, 3, d=4, e=5, h=6, *(7, 8), **{'i': 9})\n",
		"def f(a: int, b: str = 'x', *c: list, d: int = 2, **e: dict) -> None:\n    pass\nf(1)\n",
		"x = [[(i, j, k) for k in range(2) if k] for j in range(2) for i in range(2)]\ny = {i: {j for j in range(i)} for i in range(3)}\nz = list((a, b) for a in range(2) for b in range(2) if a != b)\n",
		"a = [0, 1, 2]\nclass O:\n    pass\no = O()\no.v = 1\na[1] += 2\no.v *= 3\na[0:2] = [5]\na[o.v - 3] **= 2\n",
		"def outer():\n    x = 1\n    def mid():\n        nonlocal x\n        x += 1\n        class K:\n            y = x\n            def m(self):\n                return x + self.y\n        return K().m()\n    return mid()\nouter()\n",
		"r = 1 < 2 < 3 and (4 if 5 > 6 else 7) or not 8 == 9 != 10\ns = (1 if 2 else 3) if (4 and 5) else (6 or 7)\n",
		"a, *b, c = range(5)\n(d, e), [f, *g] = (1, 2), [3, 4, 5]\nfor h, (i, j) in [(1, (2, 3))]:\n    pass\n",
		"def g():\n    try:\n        x = yield 1\n        yield from [2, 3]\n    finally:\n        yield 4\n    return 5\nlist(g())\n",
		"import math\nfrom math import pi, floor as fl\ntry:\n    from math import nosuch\nexcept ImportError:\n    pass\n",
		"x = {'a': 1, 'b': 2}\ndel x['a']\ny = [1, 2, 3]\ndel y[0], y[0:1]\nassert y, 'msg'\nz = lambda *a, **k: (a, k)\nz(1, *[2], k=3, **{'m': 4})\n",
	)
	// a function beyond 64 KiB of bytecode with jumps across it
	var sb strings.Builder
	sb.WriteString("def big(a):\n    t = 0\n    for i in a:\n        try:\n            if i:\n")
	for i := 0; i < 7000; i++ {
		fmt.Fprintf(&sb, "                t = t + %d\n", i%5)
	}
	sb.WriteString("            else:\n                continue\n        finally:\n            t += 1\n    return t\nbig([1, 0, 1])\n")
	out = append(out, sb.String())
	// operands that are not jumps beyond 16 bits: more than 65536 constants
	{
		var b strings.Builder
		b.WriteString("def consts():\n    x = 0\n")
		for i := 0; i < 65600; i++ {
			fmt.Fprintf(&b, "    x = %d\n", i+3)
		}
		b.WriteString("    return x\nconsts()\n")
		out = append(out, b.String())
	}
	// jump operands and targets at the 16-bit boundary: the head of a loop (target of a backward jump) and the end of an
	// if body (target of a forward jump) placed at every offset the padding menu can produce around 65535
	extras := []string{"", "t", "-t", "t = t", "t\n    t", "t\n    -t", "-t\n    -t", "t = t\n    -t"}
	for _, pads := range []int{6551, 6552, 6553} {
		for _, ex := range extras {
			var b strings.Builder
			b.WriteString("def edge(n):\n    t = 0\n")
			b.WriteString(strings.Repeat("    t = t + 1\n", pads))
			if ex != "" {
				b.WriteString("    " + ex + "\n")
			}
			tail := b.String()
			out = append(out, tail+"    while n:\n        n = n - 1\n        t = t + 2\n    return t\nedge(0)\nedge(2)\n")
			out = append(out, "def edge(n):\n    t = 0\n    if n:\n"+strings.Repeat("        t = t + 1\n", pads)+func() string {
				if ex == "" {
					return ""
				}
				return "        " + strings.ReplaceAll(ex, "\n    ", "\n        ") + "\n"
			}()+"    else:\n        t = 5\n    for i in range(n):\n        t = t + i\n    return t\nedge(0)\nedge(3)\n")
		}
	}
	return out
}

func init() {
	replayers["c12"] = func(c *Case) (string, string, error) {
		code, err := py.Compile(c.Program, "<c12>", py.ExecMode, 0, true)
		if err != nil {
			return "", "", nil
		}
		nlines := strings.Count(c.Program, "\n") + 1
		var errs []string
		c12dyn.mu.Lock()
		c12dyn.mismatch = nil
		c12dyn.mu.Unlock()
		for _, co := range AllCodes(code) {
			rep := VerifyCode(co, nlines)
			errs = append(errs, rep.Errors...)
			c12dyn.mu.Lock()
			c12dyn.reports[co] = rep
			c12dyn.mu.Unlock()
		}
		if len(errs) > 0 {
			return "static:" + c12ErrClass(errs[0]), strings.Join(errs, "; "), nil
		}
		if c.Mode == "run" {
			vm.VerifInstr = c12Hook
			defer func() { vm.VerifInstr = nil }()
			RunProgram(c.Program, RunOpts{Code: code})
			c12dyn.mu.Lock()
			mm := append([]string(nil), c12dyn.mismatch...)
			c12dyn.mu.Unlock()
			if len(mm) > 0 {
				return "dynamic", mm[0], nil
			}
		}
		return "", "", nil
	}
}

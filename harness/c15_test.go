//go:build verif

package harness

// C15 — float and mixed arithmetic follow IEEE-754 with Python's rules (DESIGN section 6).

import (
	"fmt"
	"math"
	"math/big"
	"strings"
	"testing"

	"github.com/go-python/gpython/py"
	"pgregory.net/rapid"
)

func c15Doubles() []float64 {
	out := []float64{0, math.Copysign(0, -1), 5e-324, -5e-324, 2.225073858507201e-308, 2.2250738585072014e-308, 0.1, -0.1, 1.0 / 3, 0.5, -0.5, 1, -1, 1.5, -1.5, 2.5, -2.5, 3.5, 0.75,
		math.MaxFloat64, -math.MaxFloat64, math.Inf(1), math.Inf(-1), math.NaN(), 1e16, 1e22, 123456789.125, 1e-7, 4.35, 2.675}
	for _, k := range []int{52, 53, 62, 63, 64, 1023, -1} {
		p := math.Ldexp(1, k)
		out = append(out, p, math.Nextafter(p, math.Inf(1)), math.Nextafter(p, 0), -p)
	}
	for h := -5.5; h <= 5.5; h += 1 {
		out = append(out, h)
	}
	return out
}

func c15Ints() []*big.Int {
	var out []*big.Int
	for _, s := range []string{"0", "1", "-1", "2", "-2", "3", "7", "-7", "10", "-10", "100", "1000000", "9007199254740992", "9007199254740993", "9007199254740994", "-9007199254740993",
		"9223372036854775807", "-9223372036854775808", "9223372036854775808", "18446744073709551616", "18446744073709553665", "18446744073709552641",
		"1000000000000000000000", "10000000000000000000000", "100000000000000000000000", "-100000000000000000000000"} {
		v, _ := new(big.Int).SetString(s, 10)
		out = append(out, v)
	}
	out = append(out, new(big.Int).Lsh(bi(1), 1023), new(big.Int).Lsh(bi(1), 1024), new(big.Int).Neg(new(big.Int).Lsh(bi(1), 1024)), new(big.Int).Sub(new(big.Int).Lsh(bi(1), 1024), bi(1)),
		new(big.Int).Add(new(big.Int).Lsh(bi(1), 2000), bi(1)))
	return out
}

const c15Prelude = `_res = []
def t(f):
    try:
        return f()
    except ZeroDivisionError:
        return 'ZeroDivisionError'
    except OverflowError:
        return 'OverflowError'
    except ValueError:
        return 'ValueError'
    except TypeError:
        return 'TypeError'
    except Exception:
        return 'Exception'
def binops(a, b):
    _res.append((a, b, 'add', t(lambda: a + b)))
    _res.append((a, b, 'sub', t(lambda: a - b)))
    _res.append((a, b, 'mul', t(lambda: a * b)))
    _res.append((a, b, 'truediv', t(lambda: a / b)))
    _res.append((a, b, 'floordiv', t(lambda: a // b)))
    _res.append((a, b, 'mod', t(lambda: a % b)))
    _res.append((a, b, 'divmod', t(lambda: divmod(a, b))))
    _res.append((a, b, 'cmp', t(lambda: (a == b, a != b, a < b, a <= b, a > b, a >= b))))
    _res.append((a, b, 'fold', t(lambda: sum([a, b])), t(lambda: min(a, b)), t(lambda: max(a, b)), t(lambda: min([a, b])), t(lambda: max([b, a]))))
    inplace(a, b)
def inplace(a, b):
    def f1():
        x = a
        x += b
        return x
    def f2():
        x = a
        x -= b
        return x
    def f3():
        x = a
        x *= b
        return x
    def f4():
        x = a
        x /= b
        return x
    def f5():
        x = a
        x //= b
        return x
    def f6():
        x = a
        x %= b
        return x
    _res.append((a, b, 'inplace', t(f1), t(f2), t(f3), t(f4), t(f5), t(f6)))
def ipow(a, n):
    x = a
    x **= n
    return x
def powops(a, n):
    _res.append((a, n, 'pow', t(lambda: a ** n), t(lambda: pow(a, n)), t(lambda: ipow(a, n))))
def unops(a):
    _res.append((a, 0, 'float', t(lambda: float(a))))
    _res.append((a, 0, 'int', t(lambda: int(a))))
    _res.append((a, 0, 'round', t(lambda: round(a))))
    for n in [-3, -2, -1, 0, 1, 2, 3]:
        _res.append((a, n, 'roundn', t(lambda: round(a, n))))
    _res.append((a, 0, 'abs', t(lambda: abs(a)), t(lambda: -a), t(lambda: +a)))
    _res.append((a, 0, 'bool', t(lambda: bool(a)), t(lambda: not a)))
    _res.append((a, 0, 'text', t(lambda: str(a)), t(lambda: repr(a))))
    _res.append((a, 0, 'parse', t(lambda: float(repr(a)) == a or a != a)))
def cx(a, z):
    _res.append((a, 0, 'complex', t(lambda: cenc(a + z)), t(lambda: cenc(z - a)), t(lambda: cenc(a * z)), t(lambda: cenc(z / a)), t(lambda: a == z), t(lambda: z != a), t(lambda: abs(z)), t(lambda: cenc(z + a)), t(lambda: cenc(a - z)), t(lambda: cenc(z * a)), t(lambda: cenc(a / z))))
def cenc(z):
    return (z.real, z.imag)
`

var c15Vars = []string{"_res"}

func c15PyFloat(f float64) string {
	switch {
	case math.IsNaN(f):
		return "float('nan')"
	case math.IsInf(f, 1):
		return "float('inf')"
	case math.IsInf(f, -1):
		return "float('-inf')"
	}
	return "float.fromhex('" + fmt.Sprintf("%x", f) + "')"
}

// c15Run runs prog with the operand lists delivered through the Go API to gpython and as
// float.fromhex / decimal literals to CPython.
func c15Setup(fs []float64, is []*big.Int) func(ctx py.Context, mod *py.Module) {
	return func(ctx py.Context, mod *py.Module) {
		fl := py.NewList()
		for _, f := range fs {
			fl.Append(py.Float(f))
		}
		il := py.NewList()
		for _, v := range is {
			if v.IsInt64() {
				il.Append(py.Int(v.Int64()))
			} else {
				il.Append((*py.BigInt)(new(big.Int).Set(v)))
			}
		}
		mod.Globals["F"] = fl
		mod.Globals["I"] = il
	}
}

func c15Run(r *Run, class string, fs []float64, is []*big.Int, body string, fail func()) {
	setup := c15Setup(fs, is)
	fbits := make([]string, len(fs))
	for i, f := range fs {
		fbits[i] = fmt.Sprintf("%016x", math.Float64bits(f))
	}
	fparts := make([]string, len(fs))
	for i, f := range fs {
		fparts[i] = c15PyFloat(f)
	}
	iparts := make([]string, len(is))
	for i, v := range is {
		iparts[i] = v.String()
	}
	prog := c15Prelude + "try:\n    F\nexcept NameError:\n    F = [" + strings.Join(fparts, ", ") + "]\n    I = [" + strings.Join(iparts, ", ") + "]\n" + body
	d, err := PyDiff(prog, PyDiffOpts{Vars: c15Vars, Setup: setup})
	if err != nil {
		r.Infra("%v", err)
	}
	if d.O != nil {
		for _, e := range SplitTop(d.O.Obs["_res"]) {
			r.Count(e, true)
		}
	}
	r.Class(class)
	if d.Sig == "" {
		return
	}
	if d.Var == "_res" && d.Index >= 0 {
		ga, oa := SplitTop(d.G.Obs["_res"]), SplitTop(d.O.Obs["_res"])
		seen := map[string]bool{}
		for i := 0; i < len(ga) && i < len(oa); i++ {
			if ga[i] == oa[i] {
				continue
			}
			parts := SplitTop(oa[i])
			op := "?"
			kinds := ""
			if len(parts) >= 3 {
				op = DecodeStr(parts[2])
				kinds = c15Kind(parts[0]) + "," + c15Kind(parts[1])
			}
			sig := op + ":" + kinds
			// the exception classes involved (if any) are part of the signature
			for _, side := range []struct{ tag, enc string }{{"want", oa[i]}, {"got", ga[i]}} {
				ps := SplitTop(side.enc)
				if len(ps) > 3 {
					if name := DecodeStr(ps[3]); strings.HasSuffix(name, "Error") {
						sig += ":" + side.tag + "=" + name
					}
				}
			}
			if seen[sig] {
				continue
			}
			seen[sig] = true
			if !r.Mismatch(&Case{Kind: "pydiff-c15", Sig: sig, Program: prog, Vars: c15Vars, Expected: oa[i], Actual: ga[i],
				Args: map[string]interface{}{"fbits": fbits, "is": iparts}, Detail: fmt.Sprintf("entry %d", i)}) {
				fail()
			}
		}
		if len(ga) != len(oa) {
			if !r.Mismatch(&Case{Kind: "pydiff-c15", Sig: "length:" + d.Sig, Program: prog, Vars: c15Vars, Expected: fmt.Sprint(len(oa)), Actual: fmt.Sprint(len(ga)) + " " + d.G.Exc + d.G.ExcMsg}) {
				fail()
			}
		}
		return
	}
	if !r.Mismatch(&Case{Kind: "pydiff-c15", Sig: class + ":" + d.Sig, Program: prog, Vars: c15Vars, Expected: d.Expected, Actual: d.Actual, Detail: d.Detail}) {
		fail()
	}
}

func c15Kind(enc string) string {
	switch {
	case strings.HasPrefix(enc, "f"):
		f := enc[1:]
		switch {
		case f == "nan":
			return "nan"
		case f == "7ff0000000000000" || f == "fff0000000000000":
			return "inf"
		case f == "0000000000000000" || f == "8000000000000000":
			return "fzero"
		}
		return "float"
	case strings.HasPrefix(enc, "i"):
		if len(enc) > 19 {
			return "bigint"
		}
		return "int"
	}
	return "other"
}

func TestC15(t *testing.T) {
	r := StartRun(t, "C15")
	defer r.Finish()
	r.Extra("rule", "pairs from a lattice of special doubles (+-0, subnormals, 2**k and neighbours for k=52,53,62,63,64,1023, halves -5.5..5.5, 0.1, 1/3, max, inf, nan) and boundary ints "+
		"(2**53+-1, 2**63, 2**64 double-rounding witnesses, 10**k, > 2**1024) x + - * / // % divmod, six comparisons, sum/min/max, ** with small integer exponents; unary float(), int(), round(x), "+
		"round(x, n) for n in -3..3, abs, bool, str/repr and float(repr(x)); complex mixing; plus rapid-drawn random bit patterns. Operands are delivered through the Go API on the gpython side; "+
		"results are compared with CPython bit for bit (all NaNs equal, +-0 distinguished). Non-trivial: every entry; distinct by (operands, operation).")
	r.Extra("assumptions", []string{"CPython 3.6 float semantics (correctly rounded operations, repr = shortest round-trip)", "** with non-integer exponents and math.* out of scope (libm); float ** n for n outside {0,1,2} only on exactly representable cases (zeros, infinities, nan, powers of two, overflow)"})
	r.ReplayKnown()
	if _, err := GetOracle(); err != nil {
		r.Infra("%v", err)
	}
	fs := c15Doubles()
	is := c15Ints()
	noop := func() {}
	if r.Shard == 0 {
		c15Run(r, "float-float", fs, is, "for a in F:\n    for b in F:\n        binops(a, b)\n", noop)
		c15Run(r, "float-int", fs, is, "for a in F:\n    for b in I:\n        binops(a, b)\n        binops(b, a)\n", noop)
		c15Run(r, "int-int", fs, is, "for a in I:\n    for b in I:\n        _res.append((a, b, 'truediv', t(lambda: a / b)))\n", noop)
		c15Run(r, "unary", fs, is, "for a in F:\n    unops(a)\nfor a in I:\n    unops(a)\n", noop)
		c15Run(r, "pow", fs, is, "for a in F:\n    for n in [0, 1, 2]:\n        powops(a, n)\nfor a in [F[0], F[1], F[2], F[11], F[12], F[19], F[21], F[22], F[23], 2.0, 0.5, -4.0]:\n    for n in [-2, -1, 3]:\n        powops(a, n)\nfor a in I[:12]:\n    for n in [0.0, 1.0, 2.0, -1.0]:\n        powops(a, n)\n", noop)
		c15Run(r, "complex", fs, is, "Z = [complex(1, 2), complex(0, 0), complex(-1.5, 0.5), complex(0, 1)]\nfor z in Z:\n    for a in F[:20]:\n        cx(a, z)\n    for a in I:\n        cx(a, z)\n", noop)
		c15Run(r, "parse", fs, is, "for s in ['inf', '-inf', 'nan', 'Infinity', '-0.0', '1e5', '1E5', '1.', '.5', '1e-400', '1e400', '  2.5  ', '0x1p3', '', 'abc', '1e', '+1.5']:\n    _res.append((s, 0, 'fromstr', t(lambda: float(s))))\n", noop)
		r.SetExhaustive(true)
	}
	rapid.Check(t, func(rt *rapid.T) {
		g := &G{T: rt}
		var rf []float64
		for i := 0; i < 4; i++ {
			var bits uint64
			for b := 0; b < 8; b++ {
				bits = bits<<8 | uint64(g.N(256))
			}
			f := math.Float64frombits(bits)
			if g.Chance(1, 3) {
				f = float64(int64(f))/4 + 0.5*float64(g.Int(-3, 3))
			}
			if g.Chance(1, 4) {
				f = math.Round(math.Mod(f, 1e6)*1000) / 1000
			}
			rf = append(rf, f)
		}
		ri := []*big.Int{drawBig(g), drawBig(g)}
		r.Sample(fmt.Sprint(rf), fmt.Sprintf("floats %x ints %v", rf, ri))
		c15Run(r, "random", rf, ri, "for a in F:\n    unops(a)\n    for b in F:\n        binops(a, b)\n    for b in I:\n        binops(a, b)\n        binops(b, a)\nfor a in I:\n    unops(a)\n", func() { rt.Fatalf("C15 mismatch") })
	})
}

func init() {
	replayers["pydiff-c15"] = func(c *Case) (string, string, error) {
		var fs []float64
		var is []*big.Int
		if l, ok := c.Args["fbits"].([]interface{}); ok {
			for _, x := range l {
				var bits uint64
				fmt.Sscanf(x.(string), "%x", &bits)
				fs = append(fs, math.Float64frombits(bits))
			}
		}
		if l, ok := c.Args["is"].([]interface{}); ok {
			for _, x := range l {
				v, _ := new(big.Int).SetString(x.(string), 10)
				is = append(is, v)
			}
		}
		d, err := PyDiff(c.Program, PyDiffOpts{Vars: c15Vars, Setup: c15Setup(fs, is)})
		if err != nil {
			return "", "", err
		}
		return d.Sig, "expected " + d.Expected + " actual " + d.Actual, nil
	}
}

//go:build verif

// Package harness: run-in-process layer for gpython (DESIGN.md section 2, "gp").
package harness

import (
	"bytes"
	"fmt"
	"math"
	"math/big"
	"runtime/debug"
	"sort"
	"strconv"
	"strings"
	"sync"
	"time"

	"github.com/go-python/gpython/py"
	_ "github.com/go-python/gpython/stdlib"
)

// ---------------------------------------------------------------- typed encoding

// Enc renders a gpython object in the canonical typed form shared with oracle_server.py.
func Enc(o py.Object) string {
	var sb strings.Builder
	encInto(&sb, o, 0)
	return sb.String()
}

func encFloat(f float64) string {
	if f != f {
		return "fnan"
	}
	return fmt.Sprintf("f%016x", math.Float64bits(f))
}

func encStr(s string) string {
	var sb strings.Builder
	sb.WriteString("s(")
	first := true
	for _, r := range s {
		if !first {
			sb.WriteByte(',')
		}
		first = false
		sb.WriteString(strconv.Itoa(int(r)))
	}
	sb.WriteString(")")
	return sb.String()
}

func encInto(sb *strings.Builder, o py.Object, depth int) {
	if depth > 40 {
		sb.WriteString("<deep>")
		return
	}
	switch v := o.(type) {
	case nil:
		sb.WriteString("<nil>")
	case py.NoneType:
		sb.WriteString("N")
	case py.Bool:
		if v {
			sb.WriteString("T")
		} else {
			sb.WriteString("F")
		}
	case py.Int:
		sb.WriteString("i")
		sb.WriteString(strconv.FormatInt(int64(v), 10))
	case *py.BigInt:
		sb.WriteString("i")
		sb.WriteString((*big.Int)(v).String())
	case py.Float:
		sb.WriteString(encFloat(float64(v)))
	case py.Complex:
		sb.WriteString("c(" + encFloat(real(complex128(v))) + "," + encFloat(imag(complex128(v))) + ")")
	case py.String:
		sb.WriteString(encStr(string(v)))
	case py.Bytes:
		sb.WriteString(fmt.Sprintf("b(%x)", []byte(v)))
	case py.Tuple:
		sb.WriteString("t[")
		for i, it := range v {
			if i > 0 {
				sb.WriteByte(',')
			}
			encInto(sb, it, depth+1)
		}
		sb.WriteString("]")
	case *py.List:
		sb.WriteString("l[")
		for i, it := range v.Items {
			if i > 0 {
				sb.WriteByte(',')
			}
			encInto(sb, it, depth+1)
		}
		sb.WriteString("]")
	case py.StringDict:
		parts := make([]string, 0, len(v))
		for k, val := range v {
			var p strings.Builder
			p.WriteString(encStr(k))
			p.WriteByte(':')
			encInto(&p, val, depth+1)
			parts = append(parts, p.String())
		}
		sort.Strings(parts)
		sb.WriteString("d{" + strings.Join(parts, ",") + "}")
	case *py.Set:
		sb.WriteString("S{" + strings.Join(encIterSorted(v, depth), ",") + "}")
	case *py.FrozenSet:
		sb.WriteString("Z{" + strings.Join(encIterSorted(v, depth), ",") + "}")
	case *py.Range:
		sb.WriteString(fmt.Sprintf("r(%d,%d,%d)", int64(v.Start), int64(v.Stop), int64(v.Step)))
	case *py.Slice:
		sb.WriteString("sl(")
		encInto(sb, v.Start, depth+1)
		sb.WriteByte(',')
		encInto(sb, v.Stop, depth+1)
		sb.WriteByte(',')
		encInto(sb, v.Step, depth+1)
		sb.WriteString(")")
	default:
		sb.WriteString("<" + o.Type().Name + ">")
	}
}

func encIterSorted(o py.Object, depth int) []string {
	var parts []string
	func() {
		defer func() {
			if r := recover(); r != nil {
				parts = append(parts, fmt.Sprintf("<iterpanic:%v>", r))
			}
		}()
		err := py.Iterate(o, func(it py.Object) bool {
			var p strings.Builder
			encInto(&p, it, depth+1)
			parts = append(parts, p.String())
			return false
		})
		if err != nil {
			parts = append(parts, "<itererr>")
		}
	}()
	sort.Strings(parts)
	return parts
}

// ---------------------------------------------------------------- stdout capture

type capWriter struct {
	mu  sync.Mutex
	buf bytes.Buffer
}

var capWriterType = py.NewType("verifwriter", "captures writes")

func (c *capWriter) Type() *py.Type { return capWriterType }

func init() {
	capWriterType.Dict["write"] = py.MustNewMethod("write", func(self py.Object, arg py.Object) (py.Object, error) {
		c := self.(*capWriter)
		c.mu.Lock()
		defer c.mu.Unlock()
		switch v := arg.(type) {
		case py.String:
			c.buf.WriteString(string(v))
		case py.Bytes:
			c.buf.Write([]byte(v))
		default:
			return nil, py.ExceptionNewf(py.TypeError, "write() argument must be str")
		}
		return py.None, nil
	}, 0, "write(s)")
	capWriterType.Dict["flush"] = py.MustNewMethod("flush", func(self py.Object) (py.Object, error) {
		return py.None, nil
	}, 0, "flush()")
}

func (c *capWriter) String() string {
	c.mu.Lock()
	defer c.mu.Unlock()
	return c.buf.String()
}

// ---------------------------------------------------------------- running programs

// TBEntry is one traceback line.
type TBEntry struct {
	Func string
	Line int
}

// Result is everything observed about one in-process run.
type Result struct {
	Exc      string            // class name of the escaping exception ("" = none)
	ExcMsg   string            // for diagnostics only, never compared
	Compile  bool              // the exception came from py.Compile
	TB       []TBEntry         // traceback, outermost first
	Panic    string            // a Go panic escaped gpython: message
	PanicTop string            // top gpython frame of that panic
	Obs      map[string]string // encoded module globals
	Stdout   string
	Timeout  bool
	Value    string // eval mode
}

// RunOpts controls RunProgram.
type RunOpts struct {
	Vars     []string
	SysPaths []string
	SysArgs  []string
	Mode     py.CompileMode
	Timeout  time.Duration
	Setup    func(ctx py.Context, mod *py.Module) // optional: install extra globals
	Filename string
	Code     *py.Code // optional: run this code object instead of compiling src
}

// ErrClass reduces an error returned by gpython to (class name, message).
func ErrClass(err error) (string, string) {
	switch e := err.(type) {
	case nil:
		return "", ""
	case py.ExceptionInfo:
		if e.Type != nil {
			return e.Type.Name, e.Error()
		}
		return "<ExceptionInfo:nil type>", e.Error()
	case *py.ExceptionInfo:
		if e.Type != nil {
			return e.Type.Name, e.Error()
		}
		return "<ExceptionInfo:nil type>", e.Error()
	case *py.Exception:
		return e.Type().Name, e.Error()
	case *py.Type:
		// gpython returns the exception class itself as the error (e.g. py.StopIteration)
		if e != nil && e.Flags&py.TPFLAGS_BASE_EXC_SUBCLASS != 0 {
			return e.Name, e.Name
		}
		return fmt.Sprintf("<goerror:%T>", err), err.Error()
	default:
		return fmt.Sprintf("<goerror:%T>", err), err.Error()
	}
}

func errTB(err error) []TBEntry {
	var tb *py.Traceback
	switch e := err.(type) {
	case py.ExceptionInfo:
		tb = e.Traceback
	case *py.ExceptionInfo:
		tb = e.Traceback
	}
	var out []TBEntry
	for ; tb != nil; tb = tb.Next {
		name := "?"
		if tb.Frame != nil && tb.Frame.Code != nil {
			name = tb.Frame.Code.Name
		}
		out = append(out, TBEntry{name, int(tb.Lineno)})
	}
	return out
}

// panicTop extracts the innermost gpython frame (function name) from a stack dump.
func panicTop(stack string) string {
	lines := strings.Split(stack, "\n")
	for _, l := range lines {
		if strings.HasPrefix(l, "github.com/go-python/gpython/") {
			l = strings.TrimPrefix(l, "github.com/go-python/gpython/")
			if i := strings.LastIndex(l, "("); i > 0 {
				l = l[:i]
			}
			return l
		}
	}
	return "?"
}

// panicClass reduces a panic value to a message class (no operands).
func panicClass(r interface{}) string {
	s := fmt.Sprint(r)
	switch {
	case strings.Contains(s, "interface conversion"):
		return "interface conversion"
	case strings.Contains(s, "index out of range"):
		return "index out of range"
	case strings.Contains(s, "slice bounds out of range"):
		return "slice bounds out of range"
	case strings.Contains(s, "nil map"):
		return "nil map"
	case strings.Contains(s, "hash of unhashable"):
		return "hash of unhashable type"
	case strings.Contains(s, "nil pointer"):
		return "nil pointer dereference"
	case strings.Contains(s, "makeslice"):
		return "makeslice"
	case strings.Contains(s, "negative WaitGroup"):
		return "negative WaitGroup counter"
	case strings.Contains(s, "divide by zero"):
		return "integer divide by zero"
	}
	if len(s) > 60 {
		s = s[:60]
	}
	return s
}

// NewCtx makes a fresh context with captured stdout.
func NewCtx(paths, args []string) (py.Context, *capWriter) {
	ctx := py.NewContext(py.ContextOpts{SysArgs: args, SysPaths: paths})
	w := &capWriter{}
	sys := ctx.Store().MustGetModule("sys")
	sys.Globals["stdout"] = w
	sys.Globals["stderr"] = w
	return ctx, w
}

// RunProgram compiles and runs src in a fresh context and reports what it observed.
func RunProgram(src string, opts RunOpts) Result {
	if opts.Timeout == 0 {
		opts.Timeout = 10 * time.Second
	}
	if opts.Mode == "" {
		opts.Mode = py.ExecMode
	}
	if opts.Filename == "" {
		opts.Filename = "<case>"
	}
	done := make(chan Result, 1)
	go func() {
		var res Result
		res.Obs = map[string]string{}
		var ctx py.Context
		var mod *py.Module
		var w *capWriter
		defer func() {
			if r := recover(); r != nil {
				res.Panic = panicClass(r)
				res.PanicTop = panicTop(string(debug.Stack()))
				res.ExcMsg = fmt.Sprint(r)
			}
			if w != nil {
				res.Stdout = w.String()
			}
			if mod != nil {
				func() {
					defer func() {
						if r := recover(); r != nil {
							res.Obs["<encpanic>"] = fmt.Sprint(r)
						}
					}()
					for _, v := range opts.Vars {
						if o, ok := mod.Globals[v]; ok {
							res.Obs[v] = Enc(o)
						}
					}
				}()
			}
			if ctx != nil {
				func() {
					defer func() { recover() }()
					ctx.Close()
				}()
			}
			done <- res
		}()
		code := opts.Code
		if code == nil {
			var err error
			code, err = py.Compile(src, opts.Filename, opts.Mode, 0, true)
			if err != nil {
				res.Exc, res.ExcMsg = ErrClass(err)
				res.Compile = true
				return
			}
		}
		var err error
		ctx, w = NewCtx(opts.SysPaths, opts.SysArgs)
		mod, err = ctx.Store().NewModule(ctx, &py.ModuleImpl{Info: py.ModuleInfo{FileDesc: opts.Filename}})
		if err != nil {
			res.Exc, res.ExcMsg = ErrClass(err)
			return
		}
		if opts.Setup != nil {
			opts.Setup(ctx, mod)
		}
		val, err := ctx.RunCode(code, mod.Globals, mod.Globals, nil)
		if err != nil {
			res.Exc, res.ExcMsg = ErrClass(err)
			res.TB = errTB(err)
			return
		}
		if opts.Mode == py.EvalMode && val != nil {
			res.Value = Enc(val)
		}
	}()
	select {
	case r := <-done:
		return r
	case <-time.After(opts.Timeout):
		return Result{Timeout: true, Obs: map[string]string{}}
	}
}

// Protect runs f and converts an escaping panic into (class, top frame).
func Protect(f func()) (pclass, ptop, pmsg string) {
	defer func() {
		if r := recover(); r != nil {
			pclass = panicClass(r)
			ptop = panicTop(string(debug.Stack()))
			pmsg = fmt.Sprint(r)
		}
	}()
	f()
	return
}

//go:build verif

package harness

// C19 — a module body runs once per context; importers share the module (DESIGN section 6).

import (
	"fmt"
	"os"
	"path/filepath"
	"strings"
	"testing"

	"pgregory.net/rapid"
)

type c19Gen struct {
	g     *G
	r     *Run
	n     int
	kinds map[string]bool
	cycle bool
	multi bool
	pkg   []bool // module j lives in the directory pk/ and is named pk.mj (from-imports only: gpython implements no other form for dotted names)
}

func (c *c19Gen) inPkg(j int) bool { return j < len(c.pkg) && c.pkg[j] }

// mname is the name module j is imported by
func (c *c19Gen) mname(j int) string {
	if c.inPkg(j) {
		return fmt.Sprintf("pk.m%d", j)
	}
	return fmt.Sprintf("m%d", j)
}

// importStmt renders one import of module j in a generated form; bound lists the names it binds
func (c *c19Gen) importStmt(j int, inModule bool) (stmt string, kind string) {
	g := c.g
	m := c.mname(j)
	ws := []int{3, 2, 2, 2, 2, 1}
	if c.inPkg(j) {
		ws = []int{0, 0, 3, 2, 3, 1}
	}
	switch g.Weighted(ws...) {
	case 0:
		return "import " + m, "import"
	case 1:
		return "import " + m + " as n" + fmt.Sprint(j), "import-as"
	case 2:
		return "from " + m + " import x" + fmt.Sprint(j), "from"
	case 3:
		return "from " + m + " import x" + fmt.Sprint(j) + " as y" + fmt.Sprint(j), "from-as"
	case 4:
		return "from " + m + " import *", "star"
	default:
		return "from " + m + " import (x" + fmt.Sprint(j) + ", lst" + fmt.Sprint(j) + ")", "from-list"
	}
}

func (c *c19Gen) module(i int, edges [][]int) string {
	g := c.g
	var sb strings.Builder
	fmt.Fprintf(&sb, "import lg\nlg.log.append('m%d:start')\n", i)
	var top, bottom []string
	for _, j := range edges[i] {
		st, kind := c.importStmt(j, true)
		c.kinds[kind] = true
		if g.Bool() {
			top = append(top, st)
		} else {
			bottom = append(bottom, st)
		}
	}
	for _, s := range top {
		sb.WriteString(s + "\n")
	}
	fmt.Fprintf(&sb, "x%d = %d\n_h%d = %d\nlst%d = [%d]\ncounter = 0\ndef bump():\n    global counter\n    counter += 1\n    return counter\n", i, i*10, i, i, i, i)
	switch g.N(4) {
	case 0:
		c.kinds["__all__"] = true
		fmt.Fprintf(&sb, "__all__ = ['x%d', '_h%d']\n", i, i)
	case 1:
		c.kinds["__all__"] = true
		fmt.Fprintf(&sb, "__all__ = ['lst%d']\n", i)
	case 2:
		if g.Chance(1, 3) {
			// a name the module does not have: the star import raises AttributeError and binds nothing for it
			c.kinds["__all__-missing-name"] = true
			fmt.Fprintf(&sb, "__all__ = ['x%d', 'nosuch%d', 'lst%d']\n", i, i, i)
		}
	}
	for _, s := range bottom {
		sb.WriteString(s + "\n")
	}
	if g.Chance(1, 4) {
		// the running program is a module too (__main__): importing it yields the one module object, without running it again
		c.kinds["import-__main__"] = true
		fmt.Fprintf(&sb, "import __main__\nimport __main__ as mm%d\nlg.log.append(('main-seen', __main__ is mm%d, __main__.shared))\n__main__.shared = __main__.shared + [%d]\n", i, i, i)
	}
	fmt.Fprintf(&sb, "lg.log.append('m%d:end')\n", i)
	return sb.String()
}

func (c *c19Gen) main() string {
	g := c.g
	var sb strings.Builder
	sb.WriteString("import lg\nlg.log.append('main:start')\nfailed = False\nshared = [0]\n")
	// Fence: when the body of a generated module raised (a from-import inside a cycle), CPython removes
	// the module from sys.modules while gpython keeps the half-initialised module cached. The property
	// does not speak about re-importing a module whose body failed, so the main program stops importing
	// generated modules after such a failure (expected failures - missing module, missing name - go on).
	wrapx := func(stmt string, stop bool) string {
		st := ""
		if stop {
			st = "\n        failed = True"
		}
		return "if not failed:\n    try:\n        " + strings.ReplaceAll(stmt, "\n    ", "\n        ") + "\n        lg.log.append('ok')\n    except ImportError:\n        lg.log.append('ImportError')" + st +
			"\n    except AttributeError:\n        lg.log.append('AttributeError')" + st + "\n    except NameError:\n        lg.log.append('NameError')\n"
	}
	wrap := func(stmt string) string { return wrapx(stmt, true) }
	nsteps := g.Int(2, 7)
	imported := map[int]int{}
	for s := 0; s < nsteps; s++ {
		switch g.Weighted(6, 2, 2, 2, 1, 1, 2) {
		case 0:
			j := g.N(c.n)
			st, kind := c.importStmt(j, false)
			c.kinds[kind] = true
			imported[j]++
			if imported[j] >= 2 {
				c.multi = true
			}
			sb.WriteString(wrap(st))
		case 1: // mutate through one importer, read through another
			j := g.N(c.n)
			c.kinds["mutate"] = true
			if c.inPkg(j) {
				c.kinds["dotted-mutate"] = true
				sb.WriteString(wrap(fmt.Sprintf("from pk.m%d import lst%d, bump\n    lst%d.append(5)\n    from pk.m%d import lst%d as q, bump as b2\n    lg.log.append((q, q is lst%d, bump(), b2(), b2 is bump))", j, j, j, j, j, j)))
				sb.WriteString(wrap(fmt.Sprintf("from pk.m%d import counter as z, lst%d as zl\n    lg.log.append((z, zl))", j, j)))
				c.multi = true
				continue
			}
			sb.WriteString(wrap(fmt.Sprintf("import m%d\n    m%d.x%d = 777\n    m%d.lst%d.append(5)\n    import m%d as q\n    lg.log.append((q.x%d, q.lst%d, q is m%d, m%d.bump(), q.bump()))", j, j, j, j, j, j, j, j, j, j)))
			sb.WriteString(wrap(fmt.Sprintf("from m%d import x%d as z, lst%d as zl\n    lg.log.append((z, zl))", j, j, j)))
			c.multi = true
		case 2:
			c.kinds["missing-module"] = true
			stmt := g.Str("import nosuchmod", "from nosuchmod import a", "import nosuchmod as k", "from nosuchmod import *")
			if g.Chance(1, 3) {
				// ... while the search path holds no directory at all (empty, or only entries that are not strings): still ImportError,
				// and modules already loaded are still found
				c.kinds["missing-module-empty-path"] = true
				sb.WriteString("import sys as _sy\n_saved = _sy.path[:]\n_sy.path[:] = " + g.Str("[]", "[None, 3]", "[None]") + "\n")
				sb.WriteString(wrapx(stmt, false))
				sb.WriteString(wrapx("import lg as lg2\n    lg.log.append(lg2 is lg)", false))
				sb.WriteString("_sy.path[:] = _saved\ndel _sy, _saved\n")
				continue
			}
			sb.WriteString(wrapx(stmt, false))
		case 3:
			c.kinds["missing-name"] = true
			j := g.N(c.n)
			if !c.inPkg(j) {
				sb.WriteString(wrap(fmt.Sprintf("import m%d", j)))
			} else {
				sb.WriteString(wrap(fmt.Sprintf("from pk.m%d import lst%d", j, j)))
			}
			sb.WriteString(wrapx(fmt.Sprintf("from %s import nosuchname", c.mname(j)), false))
		case 4:
			c.kinds["builtin-module"] = true
			sb.WriteString(wrap("import math\n    import math as mm\n    from math import pi\n    lg.log.append((math is mm, pi == math.pi, mm.floor(2.5)))"))
		case 5:
			c.kinds["builtin-module"] = true
			sb.WriteString(wrap("import sys\n    import sys as s2\n    sys.verif_attr = 5\n    lg.log.append((s2.verif_attr, sys is s2))"))
		case 6:
			c.kinds["read"] = true
			j := g.N(c.n)
			sb.WriteString(wrap(fmt.Sprintf("lg.log.append((m%d.x%d, m%d.counter))", j, j, j)))
			sb.WriteString(wrap(fmt.Sprintf("lg.log.append((x%d, lst%d))", j, j)))
			sb.WriteString(wrap(fmt.Sprintf("lg.log.append(_h%d)", j)))
		}
	}
	sb.WriteString("lg.log.append(('main:end', shared))\n_res = lg.log\n_names = sorted([k for k in globals().keys() if k[:2] != '__' and k != 'lg'])\n")
	return sb.String()
}

var c19Vars = []string{"_res", "_names"}

func c19Run(r *Run, files map[string]string, mainProg string) (*Diff, error) {
	dir, err := os.MkdirTemp(filepath.Join(VerifRoot(), "work"), "c19-")
	if err != nil {
		return nil, err
	}
	defer os.RemoveAll(dir)
	for name, content := range files {
		os.MkdirAll(filepath.Dir(filepath.Join(dir, name)), 0o755)
		if err := os.WriteFile(filepath.Join(dir, name), []byte(content), 0o644); err != nil {
			return nil, err
		}
	}
	return PyDiff(mainProg, PyDiffOpts{Vars: c19Vars, Path: dir})
}

func TestC19(t *testing.T) {
	r := StartRun(t, "C19")
	defer r.Finish()
	r.Extra("rule", "rapid-drawn import graphs over 2-5 generated source modules (chains, diamonds, 2- and 3-cycles, self-import) whose bodies log their own execution into a shared module, "+
		"with imports in every statement form (import m, import m as n, from m import a, from m import a as b, from m import *, parenthesised lists) before or after the definitions, a quarter "+
		"of the modules placed in a directory and imported by dotted name (from pk.m import ... forms), optional "+
		"__all__ and underscore names; a main program importing in a generated order and form, mutating through one importer and reading through another, importing missing modules "+
		"and names under try/except ImportError and continuing, and built-in Go modules (math, sys) through two paths. Oracle: CPython with the same directory on sys.path: execution log, "+
		"values, identities, the sorted set of names bound in main. Non-trivial: a module imported >=2 times through different statements, or a cycle, or a star import; distinct by files+main.")
	r.Extra("assumptions", []string{"CPython 3.6 import semantics equal 3.4's for plain source modules on sys.path"})
	r.ReplayKnown()
	if _, err := GetOracle(); err != nil {
		r.Infra("%v", err)
	}
	os.MkdirAll(filepath.Join(VerifRoot(), "work"), 0o755)
	rapid.Check(t, func(rt *rapid.T) {
		c := &c19Gen{g: &G{T: rt}, r: r, kinds: map[string]bool{}}
		c.n = c.g.Int(2, 5)
		for i := 0; i < c.n; i++ {
			c.pkg = append(c.pkg, c.g.Chance(1, 4))
		}
		edges := make([][]int, c.n)
		for i := 0; i < c.n; i++ {
			ne := c.g.Int(0, 2)
			for k := 0; k < ne; k++ {
				// mostly forward edges (chains, diamonds); back and self edges (cycles) in about a fifth of the draws
				var j int
				if i < c.n-1 && !c.g.Chance(1, 5) {
					j = i + 1 + c.g.N(c.n-i-1)
				} else if i == c.n-1 && !c.g.Chance(1, 4) {
					continue // the last module has no forward targets
				} else {
					j = c.g.N(c.n)
				}
				if j <= i {
					c.cycle = true
				}
				edges[i] = append(edges[i], j)
			}
		}
		files := map[string]string{"lg.py": "log = []\n"}
		var all strings.Builder
		for i := 0; i < c.n; i++ {
			src := c.module(i, edges)
			fname := fmt.Sprintf("m%d.py", i)
			if c.inPkg(i) {
				fname = "pk/" + fname
				c.kinds["dotted-module"] = true
			}
			files[fname] = src
			fmt.Fprintf(&all, "# %s\n%s", fname, src)
		}
		if c.g.Chance(1, 3) {
			// files that are named like a module but are none: no extension, or another one
			c.kinds["stray-file-named-like-module"] = true
			files[c.g.Str("nosuchmod", "nosuchmod.txt", "nosuchmod.py.bak")] = "x = 1\nlg = None\n"
			fmt.Fprintf(&all, "# a stray file named nosuchmod*\n")
		}
		mainProg := c.main()
		all.WriteString("# main\n" + mainProg)
		text := all.String()
		nt := c.multi || c.cycle || c.kinds["star"]
		r.Count(text, nt)
		for k := range c.kinds {
			r.Class(k)
		}
		if c.cycle {
			r.Class("cycle")
		}
		r.Sample(text, text)
		d, err := c19Run(r, files, mainProg)
		if err != nil {
			r.Infra("%v", err)
		}
		if d.Sig != "" {
			sig := d.Sig
			if c.cycle {
				sig = "cycle:" + sig
			}
			if !r.Mismatch(&Case{Kind: "pydiff", Sig: sig, Program: mainProg, Files: files, Vars: c19Vars, Expected: d.Expected, Actual: d.Actual, Detail: d.Detail + "\n" + text}) {
				rt.Fatalf("C19 mismatch %s", sig)
			}
		}
	})
}

//go:build verif

package harness

import (
	"bufio"
	"encoding/json"
	"fmt"
	"hash/fnv"
	"os"
	"path/filepath"
	"sort"
	"strconv"
	"strings"
	"sync"
	"sync/atomic"
	"testing"
	"time"
)

// ---------------------------------------------------------------- replay cases

// Case is a replayable case: what a violation, or a known-finding reproducer, is stored as.
type Case struct {
	Property string                 `json:"property"`
	Kind     string                 `json:"kind"` // names the replayer
	Sig      string                 `json:"sig"`  // signature of the divergence
	Program  string                 `json:"program,omitempty"`
	Vars     []string               `json:"vars,omitempty"`
	Mode     string                 `json:"mode,omitempty"`
	Args     map[string]interface{} `json:"args,omitempty"`
	Files    map[string]string      `json:"files,omitempty"`
	Expected string                 `json:"expected,omitempty"`
	Actual   string                 `json:"actual,omitempty"`
	Detail   string                 `json:"detail,omitempty"`
}

// Replayer re-executes a case against the current tree. It returns the signature of the
// divergence it sees now ("" = the case passes now) and a human-readable detail.
type Replayer func(c *Case) (sig string, detail string, err error)

var replayers = map[string]Replayer{}

// ---------------------------------------------------------------- known findings

// Finding is one line of findings/KNOWN_FINDINGS.txt.
type Finding struct {
	Fixed    bool
	Property string
	Key      string
	Sigs     []string // glob patterns ('*' wildcard) matched against mismatch signatures
	Switches []string
	Repro    string
	What     string
}

type Findings struct {
	All      []Finding
	switches map[string]string // switch -> key of the open finding that turns it off
}

func globMatch(pat, s string) bool {
	parts := strings.Split(pat, "*")
	if len(parts) == 1 {
		return pat == s
	}
	if !strings.HasPrefix(s, parts[0]) {
		return false
	}
	s = s[len(parts[0]):]
	for i := 1; i < len(parts)-1; i++ {
		idx := strings.Index(s, parts[i])
		if idx < 0 {
			return false
		}
		s = s[idx+len(parts[i]):]
	}
	return strings.HasSuffix(s, parts[len(parts)-1])
}

// LoadFindings parses the committed known-findings file. It is never written at run time.
func LoadFindings() (*Findings, error) {
	path := filepath.Join(VerifRoot(), "findings", "KNOWN_FINDINGS.txt")
	f, err := os.Open(path)
	if err != nil {
		if os.IsNotExist(err) {
			return &Findings{switches: map[string]string{}}, nil
		}
		return nil, err
	}
	defer f.Close()
	fs := &Findings{switches: map[string]string{}}
	sc := bufio.NewScanner(f)
	sc.Buffer(make([]byte, 1<<20), 1<<20)
	for sc.Scan() {
		line := strings.TrimSpace(sc.Text())
		if line == "" || strings.HasPrefix(line, "#") {
			continue
		}
		var fd Finding
		switch {
		case strings.HasPrefix(line, "finding:"):
			line = strings.TrimSpace(strings.TrimPrefix(line, "finding:"))
		case strings.HasPrefix(line, "fixed:"):
			fd.Fixed = true
			line = strings.TrimSpace(strings.TrimPrefix(line, "fixed:"))
		default:
			return nil, fmt.Errorf("KNOWN_FINDINGS.txt: bad line %q", line)
		}
		// key=value fields up to "what=", which takes the rest of the line
		rest := line
		if i := strings.Index(line, " what="); i >= 0 {
			fd.What = line[i+6:]
			rest = line[:i]
		} else if strings.HasPrefix(line, "what=") {
			fd.What = line[5:]
			rest = ""
		}
		for _, tok := range strings.Fields(rest) {
			kv := strings.SplitN(tok, "=", 2)
			if len(kv) != 2 {
				if fd.Fixed {
					continue // commit hash
				}
				return nil, fmt.Errorf("KNOWN_FINDINGS.txt: bad token %q", tok)
			}
			switch kv[0] {
			case "property":
				fd.Property = kv[1]
			case "key":
				fd.Key = kv[1]
			case "sig":
				fd.Sigs = append(fd.Sigs, kv[1])
			case "switches":
				fd.Switches = append(fd.Switches, strings.Split(kv[1], ",")...)
			case "repro":
				fd.Repro = kv[1]
			}
		}
		fs.All = append(fs.All, fd)
		if !fd.Fixed {
			for _, s := range fd.Switches {
				fs.switches[s] = fd.Key
			}
		}
	}
	return fs, sc.Err()
}

// Open returns the open findings of a property.
func (fs *Findings) Open(prop string) []Finding {
	var out []Finding
	for _, f := range fs.All {
		if !f.Fixed && f.Property == prop {
			out = append(out, f)
		}
	}
	return out
}

// MatchSig returns the key of the open finding of prop whose signature pattern matches sig.
func (fs *Findings) MatchSig(prop, sig string) (string, bool) {
	sig = strings.ReplaceAll(sig, " ", "_") // the findings file is whitespace-separated: patterns spell a space as _
	for _, f := range fs.All {
		if f.Fixed || f.Property != prop {
			continue
		}
		for _, p := range f.Sigs {
			if globMatch(p, sig) {
				return f.Key, true
			}
		}
	}
	return "", false
}

// ---------------------------------------------------------------- a run of one check

type Run struct {
	T       *testing.T
	Prop    string
	Tier    string
	Seed    int64
	Shard   int
	NShards int
	OutDir  string
	Triage  bool
	KF      *Findings

	mu         sync.Mutex
	start      time.Time
	evals      int64
	hashes     map[uint64]struct{}
	classes    map[string]int64
	excluded   map[string]int64
	knownHits  map[string]int64
	fenced     map[string]int64
	samples    []sampleEnt
	extra      map[string]interface{}
	violations []*Case
	triage     map[string]*triageEnt
	exhaustive *bool
	incon      int64
	notes      []string
}

type sampleEnt struct {
	h uint64
	v interface{}
}

type triageEnt struct {
	Count   int64 `json:"count"`
	Example *Case `json:"example"`
}

func envInt(name string, def int64) int64 {
	if v := os.Getenv(name); v != "" {
		if n, err := strconv.ParseInt(v, 10, 64); err == nil {
			return n
		}
	}
	return def
}

// StartRun prepares a run; every TestCxx calls it first.
func StartRun(t *testing.T, prop string) *Run {
	kf, err := LoadFindings()
	if err != nil {
		t.Fatalf("INFRA: %v", err)
	}
	r := &Run{
		T: t, Prop: prop,
		Tier:    os.Getenv("VERIF_TIER"),
		Seed:    envInt("VERIF_SEED", 1),
		Shard:   int(envInt("VERIF_SHARD", 0)),
		NShards: int(envInt("VERIF_NSHARDS", 1)),
		OutDir:  os.Getenv("VERIF_OUT"),
		Triage:  os.Getenv("VERIF_TRIAGE") == "1",
		KF:      kf,
		start:   time.Now(),
		hashes:  map[uint64]struct{}{}, classes: map[string]int64{}, excluded: map[string]int64{},
		knownHits: map[string]int64{}, fenced: map[string]int64{}, extra: map[string]interface{}{},
		triage: map[string]*triageEnt{},
	}
	if r.Tier == "" {
		r.Tier = "quick"
	}
	if r.OutDir == "" {
		r.OutDir = filepath.Join(VerifRoot(), "work", "adhoc", prop)
	}
	os.MkdirAll(r.OutDir, 0o755)
	os.Remove(filepath.Join(r.OutDir, "violation.json"))
	return r
}

func (r *Run) Thorough() bool { return r.Tier == "thorough" }

// Pick returns q in the quick tier and t in the thorough tier.
func (r *Run) Pick(q, t int) int {
	if r.Thorough() {
		return t
	}
	return q
}

func Hash64(s string) uint64 {
	h := fnv.New64a()
	h.Write([]byte(s))
	return h.Sum64()
}

// Count records one evaluated case. key identifies the case for distinctness.
func (r *Run) Count(key string, nontrivial bool) {
	r.mu.Lock()
	r.evals++
	if nontrivial {
		r.hashes[Hash64(key)] = struct{}{}
	}
	r.mu.Unlock()
}

// CountN records n evaluated cases of which the keyed ones are the non-trivial ones.
func (r *Run) CountN(n int64) {
	r.mu.Lock()
	r.evals += n
	r.mu.Unlock()
}

func (r *Run) Class(label string) {
	r.mu.Lock()
	r.classes[label]++
	r.mu.Unlock()
}

func (r *Run) Fenced(label string) {
	r.mu.Lock()
	r.fenced[label]++
	r.mu.Unlock()
}

func (r *Run) Inconclusive() {
	r.mu.Lock()
	r.incon++
	r.mu.Unlock()
}

func (r *Run) Note(format string, a ...interface{}) {
	r.mu.Lock()
	if len(r.notes) < 50 {
		r.notes = append(r.notes, fmt.Sprintf(format, a...))
	}
	r.mu.Unlock()
}

func (r *Run) Extra(k string, v interface{}) {
	r.mu.Lock()
	r.extra[k] = v
	r.mu.Unlock()
}

func (r *Run) AddExtra(k string, n int64) {
	r.mu.Lock()
	cur, _ := r.extra[k].(int64)
	r.extra[k] = cur + n
	r.mu.Unlock()
}

func (r *Run) SetExhaustive(b bool) {
	r.mu.Lock()
	r.exhaustive = &b
	r.mu.Unlock()
}

// Sample offers a case to the sample reservoir (the 8 cases with the smallest hash are kept,
// so the choice is a pure function of the cases seen).
func (r *Run) Sample(key string, v interface{}) {
	h := Hash64("sample:" + key)
	r.mu.Lock()
	defer r.mu.Unlock()
	if len(r.samples) >= 8 && h >= r.samples[len(r.samples)-1].h {
		return
	}
	for _, s := range r.samples {
		if s.h == h {
			return
		}
	}
	r.samples = append(r.samples, sampleEnt{h, v})
	sort.Slice(r.samples, func(i, j int) bool { return r.samples[i].h < r.samples[j].h })
	if len(r.samples) > 8 {
		r.samples = r.samples[:8]
	}
}

// On reports whether a generator feature switch is enabled (no open finding lists it).
// Each time a generator wanted the feature and could not have it, the exclusion is counted.
func (r *Run) On(sw string) bool {
	if key, off := r.KF.switches[sw]; off {
		r.mu.Lock()
		r.excluded[key]++
		r.mu.Unlock()
		return false
	}
	return true
}

// SwitchOn is On without counting (for building choice sets once).
func (r *Run) SwitchOn(sw string) bool {
	_, off := r.KF.switches[sw]
	return !off
}

// Mismatch reports a divergence. It returns true when the divergence belongs to an open known
// finding (the caller keeps searching) and false when it is a new violation (already recorded;
// the caller should fail the case so that rapid shrinks it).
func (r *Run) Mismatch(c *Case) bool {
	c.Property = r.Prop
	if key, ok := r.KF.MatchSig(r.Prop, c.Sig); ok {
		r.mu.Lock()
		r.knownHits[key]++
		r.mu.Unlock()
		return true
	}
	r.mu.Lock()
	defer r.mu.Unlock()
	if r.Triage {
		e := r.triage[c.Sig]
		if e == nil {
			e = &triageEnt{}
			r.triage[c.Sig] = e
		}
		e.Count++
		if e.Example == nil || len(c.Program)+len(c.Detail) < len(e.Example.Program)+len(e.Example.Detail) {
			cc := *c
			e.Example = &cc
		}
		return true
	}
	cc := *c
	r.violations = append(r.violations, &cc)
	// the last recorded violation is the pending replay (for rapid: the shrunk case)
	r.writeViolation(&cc)
	return false
}

func (r *Run) writeViolation(c *Case) {
	b, _ := json.MarshalIndent(c, "", " ")
	os.WriteFile(filepath.Join(r.OutDir, "violation.json"), b, 0o644)
}

// ClearViolations forgets recorded violations (used by rapid properties: every failing
// invocation overwrites the pending one; the last one is the shrunk case).
func (r *Run) Violations() int {
	r.mu.Lock()
	defer r.mu.Unlock()
	return len(r.violations)
}

// Infra aborts the run as inconclusive (driver exit 2).
func (r *Run) Infra(format string, a ...interface{}) {
	msg := fmt.Sprintf(format, a...)
	os.WriteFile(filepath.Join(r.OutDir, "infra.txt"), []byte(msg), 0o644)
	r.T.Fatalf("INFRA: %s", msg)
}

// ReplayKnown replays the committed reproducer of every open finding of this property and
// records whether it still fails. Only shard 0 does it.
func (r *Run) ReplayKnown() {
	if r.Shard != 0 {
		return
	}
	type st struct {
		Key    string `json:"key"`
		What   string `json:"what"`
		Status string `json:"status"` // fails | passes | norepro | error
		Detail string `json:"detail,omitempty"`
	}
	var out []st
	for _, f := range r.KF.Open(r.Prop) {
		s := st{Key: f.Key, What: f.What, Status: "norepro"}
		if f.Repro != "" {
			c, err := LoadCase(filepath.Join(VerifRoot(), f.Repro))
			if err != nil {
				s.Status, s.Detail = "error", err.Error()
			} else if rp, ok := replayers[c.Kind]; !ok {
				s.Status, s.Detail = "error", "no replayer for kind "+c.Kind
			} else {
				sig, detail, err := rp(c)
				switch {
				case err != nil:
					s.Status, s.Detail = "error", err.Error()
				case sig == "":
					s.Status = "passes"
				default:
					s.Status, s.Detail = "fails", sig+" "+detail
					if len(s.Detail) > 300 {
						s.Detail = s.Detail[:300]
					}
				}
			}
		}
		out = append(out, s)
	}
	b, _ := json.MarshalIndent(out, "", " ")
	os.WriteFile(filepath.Join(r.OutDir, "known.json"), b, 0o644)
}

func LoadCase(path string) (*Case, error) {
	b, err := os.ReadFile(path)
	if err != nil {
		return nil, err
	}
	var c Case
	if err := json.Unmarshal(b, &c); err != nil {
		return nil, err
	}
	return &c, nil
}

// Finish writes this shard's evidence fragment and fails the test if violations were recorded.
func (r *Run) Finish() {
	r.mu.Lock()
	defer r.mu.Unlock()
	hs := make([]uint64, 0, len(r.hashes))
	for h := range r.hashes {
		hs = append(hs, h)
	}
	sort.Slice(hs, func(i, j int) bool { return hs[i] < hs[j] })
	var sb strings.Builder
	for _, h := range hs {
		fmt.Fprintf(&sb, "%016x\n", h)
	}
	os.WriteFile(filepath.Join(r.OutDir, "hashes.txt"), []byte(sb.String()), 0o644)
	samples := make([]interface{}, 0, len(r.samples))
	for _, s := range r.samples {
		samples = append(samples, s.v)
	}
	frag := map[string]interface{}{
		"property_id": r.Prop, "tier": r.Tier, "seed": r.Seed, "shard": r.Shard,
		"evaluations": r.evals, "distinct_nontrivial_shard": len(hs),
		"classes": r.classes, "excluded_by_known_finding": r.excluded,
		"known_finding_hits": r.knownHits, "fenced": r.fenced, "samples": samples,
		"extra": r.extra, "inconclusive": r.incon, "notes": r.notes,
		"violations": len(r.violations), "wall_s": time.Since(r.start).Seconds(),
	}
	if atomic.LoadInt64(&rapidDraws) > 0 {
		// part of the run was drawn at random: "exhaustive" is claimed only for runs that are enumeration throughout
		if r.exhaustive != nil && *r.exhaustive {
			if r.extra == nil {
				r.extra = map[string]interface{}{}
			}
			r.extra["enumerated_part_complete"] = true
		}
		f := false
		r.exhaustive = &f
	}
	if r.exhaustive != nil {
		frag["exhaustive"] = *r.exhaustive
	}
	if o := oracleInst; o != nil {
		frag["oracle"] = o.Path + " (" + o.Version + ")"
	}
	b, _ := json.MarshalIndent(frag, "", " ")
	os.WriteFile(filepath.Join(r.OutDir, "fragment.json"), b, 0o644)
	if r.Triage {
		tb, _ := json.MarshalIndent(r.triage, "", " ")
		os.WriteFile(filepath.Join(r.OutDir, "triage.json"), tb, 0o644)
	}
	if len(r.violations) > 0 {
		v := r.violations[len(r.violations)-1]
		r.T.Errorf("VIOLATION %s sig=%s\n%s\nexpected: %.600s\nactual:   %.600s\n%s", r.Prop, v.Sig, v.Program, v.Expected, v.Actual, v.Detail)
	}
}

//go:build verif

package harness

// C01 — expressions evaluate once, left to right, with Python's grouping (DESIGN section 6).

import (
	"fmt"
	"strings"
	"testing"

	"pgregory.net/rapid"
)

const c01Prelude = `_log = []
_res = []
class O:
    pass
def v(k, x):
    _log.append(k)
    return x
x = [10, 20, 30, 40]
d = {'a': 1, 'b': 2}
o = O()
o2 = O()
import sys as sysm
o.a = 5
o.b = [1, 2, 3]
def vx(k):
    _log.append(k)
    return x
def vd(k):
    _log.append(k)
    return d
def vo(k):
    _log.append(k)
    return o
def f(*a, **k):
    _log.append('f')
    return (a, k)
def g2(p, q=7, *r, s=8, **u):
    _log.append('g2')
    return (p, q, r, s, u)
def run(t):
    try:
        _res.append(t())
    except ZeroDivisionError:
        _res.append('ZeroDivisionError')
    except OverflowError:
        _res.append('OverflowError')
    except IndexError:
        _res.append('IndexError')
    except KeyError:
        _res.append('KeyError')
    except UnboundLocalError:
        _res.append('UnboundLocalError')
    except NameError:
        _res.append('NameError')
    except AttributeError:
        _res.append('AttributeError')
    except TypeError:
        _res.append('TypeError')
    except ValueError:
        _res.append('ValueError')
    except Exception:
        _res.append('Exception')
    _log.append('|')
`

type c01Type int

const (
	tInt c01Type = iota
	tBool
	tStr
	tList
	tAny
)

type c01Gen struct {
	g      *G
	r      *Run
	leaf   int
	kinds  map[string]bool
	skips  bool     // contains a short-circuit / chain / conditional
	vars   []string // comprehension variables in scope (int-valued)
	budget int
}

func (c *c01Gen) k() int { c.leaf++; return c.leaf }

func (c *c01Gen) use(kind string) { c.kinds[kind] = true }

func (c *c01Gen) leafInt() string {
	if len(c.vars) > 0 && c.g.Chance(1, 2) {
		return fmt.Sprintf("v(%d, %s)", c.k(), c.vars[c.g.N(len(c.vars))])
	}
	return fmt.Sprintf("v(%d, %d)", c.k(), c.g.Ints(0, 1, 2, 3, -1, -2, 5, 7))
}

// leafObj is a logging leaf whose value is an object of any kind, including kinds without an __eq__ of their own
func (c *c01Gen) leafObj() string {
	return fmt.Sprintf("v(%d, %s)", c.k(), c.g.Str("None", "f", "g2", "O", "o", "o2", "len", "sysm", "0", "'a'", "()", "[]", "True", "x", "d", "f", "o", "None"))
}

func (c *c01Gen) smallNonNeg() string {
	return fmt.Sprintf("v(%d, %d)", c.k(), c.g.Ints(0, 1, 2, 3))
}

func (c *c01Gen) leafOf(t c01Type) string {
	switch t {
	case tInt:
		return c.leafInt()
	case tBool:
		return fmt.Sprintf("v(%d, %s)", c.k(), c.g.Str("False", "True"))
	case tStr:
		return fmt.Sprintf("v(%d, %s)", c.k(), c.g.Str("''", "'a'", "'ab'", "'b'"))
	case tList:
		return fmt.Sprintf("v(%d, %s)", c.k(), c.g.Str("[]", "[1]", "[1, 2, 3]", "[0, 5]", "(1, 2)", "(3,)"))
	default:
		// truth-tested values of every kind (these leaves feed conditions, not, and/or, is): zero and non-zero of each numeric type, Ellipsis
		return fmt.Sprintf("v(%d, %s)", c.k(), c.g.Str("0", "1", "None", "''", "'a'", "[]", "[0]", "2", "False", "True", "()", "0j", "1j", "0.0", "-0.0", "0.5", "(1 if ... else 0)", "(not ...)", "{}", "{'k': 0}", "b''", "b'0'", "range(0)", "range(1)", "(1 if f else 0)", "(1 if o else 0)"))
	}
}

// true division is left to the operator tables (plain int operands): in random trees its float results would flow into ** and
// compare Go's math.Pow with libm's pow in the last bit, which Python does not define (C15 scope note)
var c01ArithOps = []string{"+", "-", "*", "//", "%", "&", "|", "^"}
var c01CmpOps = []string{"<", "<=", ">", ">=", "==", "!="}

// expr generates an expression of (roughly) type t. All sub-expressions are parenthesised by
// construction here; grouping without parentheses is the job of the operator tables below.
func (c *c01Gen) expr(t c01Type, depth int) string {
	c.budget--
	if depth <= 0 || c.budget <= 0 || c.g.Chance(1, 5) {
		return c.leafOf(t)
	}
	g := c.g
	switch t {
	case tInt:
		switch g.Weighted(6, 2, 2, 2, 2, 2, 2, 2, 2, 1, 1) {
		case 0:
			c.use("binop")
			op := c01ArithOps[g.N(len(c01ArithOps))]
			return "(" + c.expr(tInt, depth-1) + " " + op + " " + c.expr(tInt, depth-1) + ")"
		case 1:
			c.use("shiftpow")
			op := g.Str("**", "<<", ">>")
			return "(" + c.expr(tInt, depth-1) + " " + op + " " + c.smallNonNeg() + ")"
		case 2:
			c.use("unary")
			return "(" + g.Str("-", "+", "~") + c.expr(tInt, depth-1) + ")"
		case 3:
			c.use("boolop")
			c.skips = true
			n := g.Int(2, 3)
			parts := make([]string, n)
			for i := range parts {
				parts[i] = c.expr(tInt, depth-1)
			}
			return "(" + strings.Join(parts, " "+g.Str("and", "or")+" ") + ")"
		case 4:
			c.use("cond")
			c.skips = true
			a := c.expr(tInt, depth-1)
			cond := c.expr(tAny, depth-1)
			b := c.expr(tInt, depth-1)
			return "(" + a + " if " + cond + " else " + b + ")"
		case 5:
			c.use("subscript")
			return c.expr(tList, depth-1) + "[" + c.expr(tInt, depth-1) + "]"
		case 6:
			c.use("attr")
			return fmt.Sprintf("vo(%d).a", c.k())
		case 7:
			c.use("call")
			return "len(" + c.expr(tList, depth-1) + ")"
		case 8:
			c.use("lambda")
			// default evaluated at definition, arguments at call
			dflt := c.expr(tInt, depth-1)
			arg := c.expr(tInt, depth-1)
			if g.Chance(1, 3) {
				// positional defaults are evaluated before keyword-only defaults, left to right, all at definition
				c.use("lambda-kwonly-defaults")
				d2 := c.expr(tInt, depth-1)
				d3 := c.leafInt()
				return "(lambda a, b=" + dflt + ", *r, c=" + d2 + ", d=" + d3 + ", **k: a - b + c * d)(" + arg + g.Str("", ", c=1", ", 2, 3", ", d=2") + ")"
			}
			if g.Bool() {
				return "(lambda a, b=" + dflt + ": a - b)(" + arg + ")"
			}
			arg2 := c.expr(tInt, depth-1)
			return "(lambda a, b=" + dflt + ": a - b)(" + arg + ", " + arg2 + ")"
		case 9:
			c.use("dictsub")
			return fmt.Sprintf("vd(%d)[%s]", c.k(), c.expr(tStr, depth-1))
		default:
			c.use("call")
			return "abs(" + c.expr(tInt, depth-1) + ")"
		}
	case tBool:
		switch g.Weighted(4, 3, 2, 2, 1, 3) {
		case 5:
			// comparisons, identity and membership over objects of every kind, most of which define no __eq__ of their own
			// (functions, classes, modules, instances, None): == and != fall back to identity, ordering is a TypeError
			c.use("compare-any")
			a, b := c.leafObj(), c.leafObj()
			switch g.Weighted(4, 2, 2, 1, 4) {
			case 4:
				// numbers of different types (int, bool, float) compare by value through the reflected method of the other operand
				num := func() string {
					return fmt.Sprintf("v(%d, %s)", c.k(), g.Str("0", "1", "2", "-1", "True", "False", "0.0", "1.0", "2.0", "-1.0", "1.5", "2**53", "2.0**53", "2**53 + 1"))
				}
				e := "(" + num()
				for i, n := 0, g.Int(1, 3); i < n; i++ {
					e += " " + c01CmpOps[g.N(6)] + " " + num()
				}
				return e + ")"
			case 0:
				return "(" + a + " " + g.Str("==", "!=", "==", "!=", "is", "is not") + " " + b + ")"
			case 1:
				op := g.Str("in", "not in")
				if g.Bool() {
					return "(" + a + " " + op + " (" + b + ", " + c.leafObj() + "))"
				}
				return "(" + a + " " + op + " [" + b + ", " + c.leafObj() + "])"
			case 2:
				return "((" + a + ", " + c.leafObj() + ") " + g.Str("==", "!=") + " (" + b + ", " + c.leafObj() + "))"
			default:
				return "(" + a + " " + c01CmpOps[g.N(4)] + " " + b + ")"
			}
		case 0:
			c.use("compare")
			return "(" + c.expr(tInt, depth-1) + " " + c01CmpOps[g.N(6)] + " " + c.expr(tInt, depth-1) + ")"
		case 1:
			c.use("chain")
			c.skips = true
			n := g.Int(3, 4)
			var sb strings.Builder
			sb.WriteString("(" + c.expr(tInt, depth-1))
			for i := 1; i < n; i++ {
				sb.WriteString(" " + c01CmpOps[g.N(6)] + " " + c.expr(tInt, depth-1))
			}
			sb.WriteString(")")
			return sb.String()
		case 2:
			c.use("in")
			return "(" + c.expr(tInt, depth-1) + " " + g.Str("in", "not in") + " " + c.expr(tList, depth-1) + ")"
		case 3:
			c.use("not")
			return "(not " + c.expr(tAny, depth-1) + ")"
		default:
			c.use("is")
			return "(" + c.expr(tAny, depth-1) + " " + g.Str("is", "is not") + " None)"
		}
	case tStr:
		switch g.Weighted(3, 2, 1) {
		case 0:
			c.use("binop")
			return "(" + c.expr(tStr, depth-1) + " + " + c.expr(tStr, depth-1) + ")"
		case 1:
			c.use("binop")
			return "(" + c.expr(tStr, depth-1) + " * " + c.smallNonNeg() + ")"
		default:
			c.use("subscript")
			return c.expr(tStr, depth-1) + "[" + c.expr(tInt, depth-1) + "]"
		}
	case tList:
		switch g.Weighted(3, 2, 2, 2, 1, 1) {
		case 0:
			c.use("display")
			n := g.Int(0, 3)
			parts := make([]string, n)
			for i := range parts {
				parts[i] = c.expr(tInt, depth-1)
			}
			if g.Bool() {
				return "[" + strings.Join(parts, ", ") + "]"
			}
			if n == 1 {
				return "(" + parts[0] + ",)"
			}
			return "(" + strings.Join(parts, ", ") + ")"
		case 1:
			c.use("slice")
			parts := make([]string, 0, 3)
			n := g.Int(2, 3)
			for i := 0; i < n; i++ {
				if g.Chance(1, 3) {
					parts = append(parts, "")
				} else if i == 2 {
					parts = append(parts, fmt.Sprintf("v(%d, %d)", c.k(), g.Ints(1, 2, -1, -2, 0)))
				} else {
					parts = append(parts, c.expr(tInt, depth-1))
				}
			}
			return c.expr(tList, depth-1) + "[" + strings.Join(parts, ":") + "]"
		case 2:
			c.use("comprehension")
			name := fmt.Sprintf("i%d", len(c.vars))
			iter := c.expr(tList, depth-1)
			c.vars = append(c.vars, name)
			elt := c.expr(tInt, depth-1)
			cond := ""
			if g.Bool() {
				cond = " if " + c.expr(tAny, depth-1)
			}
			c.vars = c.vars[:len(c.vars)-1]
			if g.Chance(1, 4) {
				return "list(" + elt + " for " + name + " in " + iter + cond + ")"
			}
			return "[" + elt + " for " + name + " in " + iter + cond + "]"
		case 3:
			c.use("binop")
			return "(" + c.expr(tList, depth-1) + " + " + c.expr(tList, depth-1) + ")"
		case 4:
			c.use("attr")
			return fmt.Sprintf("vo(%d).b", c.k())
		default:
			c.use("binop")
			return "(" + c.expr(tList, depth-1) + " * " + c.smallNonNeg() + ")"
		}
	default: // tAny
		switch g.Weighted(3, 3, 2, 2, 3, 2, 2, 2) {
		case 0:
			return c.expr(tInt, depth)
		case 1:
			return c.expr(tBool, depth)
		case 2:
			return c.expr(tStr, depth)
		case 3:
			return c.expr(tList, depth)
		case 4:
			c.use("callargs")
			return c.call(depth)
		case 5:
			c.use("setdisplay")
			n := g.Int(1, 3)
			parts := make([]string, n)
			for i := range parts {
				if g.Bool() {
					parts[i] = c.expr(tInt, depth-1)
				} else {
					parts[i] = c.expr(tStr, depth-1)
				}
			}
			return "{" + strings.Join(parts, ", ") + "}"
		case 6:
			c.use("dictdisplay")
			// 3.4 evaluates value before key, 3.5+ key first: keys are constants here (fence), the
			// 3.4 order has its own sub-check below
			n := g.Int(0, 3)
			parts := make([]string, n)
			for i := range parts {
				parts[i] = fmt.Sprintf("'k%d': %s", g.N(3), c.expr(tInt, depth-1))
			}
			if g.Chance(1, 4) && n > 0 {
				name := fmt.Sprintf("i%d", len(c.vars))
				return "{str(" + name + "): " + name + " for " + name + " in " + c.expr(tList, depth-1) + "}"
			}
			return "{" + strings.Join(parts, ", ") + "}"
		default:
			c.use("boolop")
			c.skips = true
			return "(" + c.expr(tAny, depth-1) + " " + g.Str("and", "or") + " " + c.expr(tAny, depth-1) + ")"
		}
	}
}

// call generates a call with positional, keyword, *seq and **map arguments.
func (c *c01Gen) call(depth int) string {
	g := c.g
	fn := g.Str("f", "f", "g2")
	var args []string
	np := g.Int(0, 2)
	for i := 0; i < np; i++ {
		args = append(args, c.expr(tInt, depth-1))
	}
	star := g.Chance(1, 3)
	nk := g.Int(0, 2)
	kwnames := []string{"s", "q", "z"}
	for i := 0; i < nk; i++ {
		val := ""
		if star {
			// fence: 3.4 evaluates keyword values before *seq, 3.5+ after; no side effects here
			c.r.Fenced("kw_with_star_constant")
			val = fmt.Sprintf("%d", g.Int(0, 9))
		} else {
			val = c.expr(tInt, depth-1)
		}
		args = append(args, kwnames[i]+"="+val)
	}
	if star {
		args = append(args, "*"+c.expr(tList, depth-1))
	}
	if g.Chance(1, 4) {
		args = append(args, fmt.Sprintf("**v(%d, %s)", c.k(), g.Str("{}", "{'w': 1}", "{'s': 3}", "{'z': 2, 'w': 4}")))
	}
	return fn + "(" + strings.Join(args, ", ") + ")"
}

// stmt generates an assignment-like statement followed by the expression that reports the locals.
func (c *c01Gen) stmt(depth int) (string, string) {
	g := c.g
	switch g.Weighted(2, 2, 2, 2, 2, 2, 2, 2, 2, 2) {
	case 0:
		c.use("multitarget")
		return "a = b = " + c.expr(tInt, depth), "(a, b)"
	case 1:
		c.use("unpack")
		rhs := c.expr(tList, depth)
		switch g.N(4) {
		case 0:
			return "a, b = " + rhs, "(a, b)"
		case 1:
			return "[a, b, c] = " + rhs, "(a, b, c)"
		case 2:
			return "a, *b = " + rhs, "(a, b)"
		default:
			return "*a, b = " + rhs, "(a, b)"
		}
	case 2:
		c.use("subscript-store")
		return fmt.Sprintf("vx(%d)[%s] = %s", c.k(), c.expr(tInt, depth-1), c.expr(tInt, depth-1)), "None"
	case 3:
		c.use("attr-store")
		return fmt.Sprintf("vo(%d).a = %s", c.k(), c.expr(tInt, depth-1)), "None"
	case 4:
		c.use("aug-subscript")
		op := g.Str("+=", "-=", "*=", "//=", "%=", "**=", "<<=", ">>=", "&=", "|=", "^=", "/=")
		rhs := c.expr(tInt, depth-1)
		if op == "**=" || op == "<<=" || op == ">>=" {
			rhs = c.smallNonNeg()
		}
		if g.Bool() {
			return fmt.Sprintf("vo(%d).b[%s] %s %s", c.k(), c.expr(tInt, depth-1), op, rhs), "None"
		}
		return fmt.Sprintf("vx(%d)[%s] %s %s", c.k(), c.expr(tInt, depth-1), op, rhs), "None"
	case 5:
		c.use("aug-attr")
		op := g.Str("+=", "-=", "*=", "//=", "%=", "&=", "|=", "^=")
		return fmt.Sprintf("vo(%d).a %s %s", c.k(), op, c.expr(tInt, depth-1)), "None"
	case 6:
		c.use("slice-store")
		lo := c.expr(tInt, depth-1)
		hi := c.expr(tInt, depth-1)
		return fmt.Sprintf("vx(%d)[%s:%s] = %s", c.k(), lo, hi, c.expr(tList, depth-1)), "None"
	case 7:
		c.use("multitarget")
		// several targets, each with sub-expressions: RHS first, then targets left to right
		return fmt.Sprintf("vx(%d)[%s] = vo(%d).a = a = %s", c.k(), c.expr(tInt, depth-1), c.k(), c.expr(tInt, depth-1)), "a"
	case 8:
		c.use("aug-name")
		op := g.Str("+=", "-=", "*=", "//=", "|=")
		return "a = " + c.expr(tInt, depth-1) + "\na " + op + " " + c.expr(tInt, depth-1), "a"
	default:
		// operands of different numeric types: the in-place slot of the left operand declines and the
		// reflected operation of the right operand decides (values chosen so that every result is exact)
		c.use("aug-mixed-types")
		op := g.Str("+=", "-=", "*=", "/=", "//=", "%=", "**=")
		lhs := g.Str("4", "9", "7", "16", "2.5", "True")
		rhs := g.Str("0.5", "2.0", "True", "2", "4.0")
		target := "a"
		pre := fmt.Sprintf("a = v(%d, %s)\n", c.k(), lhs)
		if g.Bool() {
			target = fmt.Sprintf("vx(%d)[0]", c.k())
			pre = fmt.Sprintf("x[0] = v(%d, %s)\n", c.k(), lhs)
		}
		ret := "a"
		if target != "a" {
			ret = "x[0]"
		}
		return pre + target + " " + op + fmt.Sprintf(" v(%d, %s)", c.k(), rhs), ret
	}
}

func c01Program(body string) string {
	return c01Prelude + body + "run(t)\n_res.append([x, d, o.a, o.b])\n"
}

var c01Vars = []string{"_log", "_res"}

func TestC01(t *testing.T) {
	r := StartRun(t, "C01")
	defer r.Finish()
	r.Extra("rule", "random typed expression/assignment trees (depth<=4, <=14 leaves) whose leaves log their own evaluation, "+
		"plus exhaustive unparenthesised operator pairs/triples and the two 3.4 evaluation-order sub-checks; oracle = CPython on "+
		"(evaluation log, value or exception class, final containers). Non-trivial: >=2 logging leaves under >=2 operator kinds, or a "+
		"short-circuit/chain/conditional, or an augmented/subscript/multi-target assignment; distinct by program text.")
	r.Extra("assumptions", []string{"CPython 3.6 defines the expected value inside the fenced common subset 3.4=3.6", "exceptions compared by class name"})
	r.ReplayKnown()
	if _, err := GetOracle(); err != nil {
		r.Infra("%v", err)
	}
	c01Tables(r)
	c01Order34(r)
	rapid.Check(t, func(rt *rapid.T) {
		c := &c01Gen{g: &G{T: rt}, r: r, kinds: map[string]bool{}, budget: 14}
		var body string
		isStmt := c.g.Chance(2, 5)
		if isStmt {
			st, ret := c.stmt(3)
			body = "def t():\n" + Indent(st, 4) + "    return " + ret + "\n"
		} else {
			body = "def t():\n    return " + c.expr(tAny, 4) + "\n"
		}
		prog := c01Program(body)
		d, err := PyDiff(prog, PyDiffOpts{Vars: c01Vars})
		if err != nil {
			r.Infra("%v", err)
		}
		nt := (c.leaf >= 2 && len(c.kinds) >= 2) || c.skips || isStmt
		r.Count(body, nt)
		for k := range c.kinds {
			r.Class(k)
		}
		r.Sample(body, body)
		if d.Sig != "" {
			cs := &Case{Kind: "pydiff", Sig: d.Sig, Program: prog, Vars: c01Vars, Expected: d.Expected, Actual: d.Actual, Detail: d.Detail}
			if !r.Mismatch(cs) {
				rt.Fatalf("C01 mismatch %s", d.Sig)
			}
		}
	})
}

// ---------------------------------------------------------------- operator tables

var c01Bin = []string{"+", "-", "*", "/", "//", "%", "**", "<<", ">>", "&", "|", "^", "<", "<=", ">", ">=", "==", "!=", "and", "or"}
var c01Un = []string{"", "-", "~", "not "}

func explosive(op string) bool { return op == "**" || op == "<<" }

// c01Tables runs every unparenthesised pair (quick) and triple (thorough) of operators.
func c01Tables(r *Run) {
	type ent struct{ text string }
	var exprs []string
	valsBig := []int{3, -2, 5, 2}
	valsSmall := []int{2, -1, 2, 1}
	mk := func(ops []string, un []string) string {
		nexp := 0
		for _, o := range ops {
			if explosive(o) {
				nexp++
			}
		}
		vals := valsBig
		if nexp >= 2 {
			vals = valsSmall
		}
		var sb strings.Builder
		for i := 0; i <= len(ops); i++ {
			if i > 0 {
				sb.WriteString(" " + ops[i-1] + " ")
			}
			fmt.Fprintf(&sb, "%sv(%d, %d)", un[i], i+1, vals[i])
		}
		return sb.String()
	}
	// pairs: all op1, op2, with every unary prefix on each of the three operands one at a time
	for _, a := range c01Bin {
		for _, b := range c01Bin {
			for pos := 0; pos < 3; pos++ {
				for ui, u := range c01Un {
					if ui == 0 && pos > 0 {
						continue
					}
					if u == "not " && pos > 0 {
						// "a + not b" is not an expression; "not" may only follow and/or
						prev := []string{a, b}[pos-1]
						if prev != "and" && prev != "or" {
							continue
						}
					}
					if pos == 2 && a == "**" && b == "**" && u != "" {
						continue // fence: non-integer float exponent would compare libm pow with Go's
					}
					un := []string{"", "", ""}
					un[pos] = u
					exprs = append(exprs, mk([]string{a, b}, un))
				}
			}
		}
	}
	if r.Thorough() && r.Shard == 0 {
		for _, a := range c01Bin {
			for _, b := range c01Bin {
				for _, c := range c01Bin {
					exprs = append(exprs, mk([]string{a, b, c}, []string{"", "", "", ""}))
				}
			}
		}
	}
	// conditional expression and lambda mixed with binary operators
	for _, a := range c01Bin {
		exprs = append(exprs, "v(1, 3) "+a+" v(2, 2) if v(3, 0) else v(4, 5) "+a+" v(5, 2)")
		exprs = append(exprs, "(lambda: v(1, 3) "+a+" v(2, 2))()")
		exprs = append(exprs, "v(1, 3) if v(2, 1) else v(3, 4) if v(4, 0) else v(5, 2) "+a+" v(6, 1)")
	}
	// comparison of numbers of different types: every operator over every pair of an int, a bool and a float (equal and unequal
	// values, and 2**53 where a float stops holding every int), each operand logging its evaluation
	nums := []string{"0", "1", "2", "-1", "True", "False", "0.0", "1.0", "2.0", "-1.0", "1.5", "2**53", "2.0**53", "2**53 + 1"}
	for _, a := range nums {
		for _, b := range nums {
			for _, op := range c01CmpOps {
				exprs = append(exprs, "v(1, "+a+") "+op+" v(2, "+b+")")
			}
		}
	}
	const batch = 150
	for i := 0; i < len(exprs); i += batch {
		j := i + batch
		if j > len(exprs) {
			j = len(exprs)
		}
		var sb strings.Builder
		sb.WriteString(c01Prelude)
		for _, e := range exprs[i:j] {
			sb.WriteString("run(lambda: " + e + ")\n")
		}
		prog := sb.String()
		d, err := PyDiff(prog, PyDiffOpts{Vars: c01Vars})
		if err != nil {
			r.Infra("%v", err)
		}
		for _, e := range exprs[i:j] {
			r.Count("tbl:"+e, true)
		}
		r.Class("table-exprs")
		r.Sample("tbl:"+exprs[i], exprs[i])
		if d.Sig != "" {
			// narrow to the single expression
			bad := ""
			for _, e := range exprs[i:j] {
				p := c01Prelude + "run(lambda: " + e + ")\n"
				d1, err := PyDiff(p, PyDiffOpts{Vars: c01Vars})
				if err != nil {
					r.Infra("%v", err)
				}
				if d1.Sig != "" {
					bad = e
					cs := &Case{Kind: "pydiff", Sig: "table:" + d1.Sig, Program: p, Vars: c01Vars, Expected: d1.Expected, Actual: d1.Actual, Detail: "operator table entry: " + e}
					r.Mismatch(cs)
					break
				}
			}
			if bad == "" {
				cs := &Case{Kind: "pydiff", Sig: "table-batch:" + d.Sig, Program: prog, Vars: c01Vars, Expected: d.Expected, Actual: d.Actual}
				r.Mismatch(cs)
			}
		}
	}
	r.SetExhaustive(true)
}

// c01Order34 states the two orders in which Python 3.4 differs from later versions, with the
// expectation computed here: dict displays evaluate each value before its key; a call evaluates
// keyword values before *seq.
func c01Order34(r *Run) {
	type tc struct{ expr, log, val string }
	cases := []tc{
		{"{v(1, 'a'): v(2, 1)}", "l[i2,i1,s(124)]", "d{s(97):i1}"},
		{"{v(1, 'a'): v(2, 1), v(3, 'b'): v(4, 2)}", "l[i2,i1,i4,i3,s(124)]", "d{s(97):i1,s(98):i2}"},
		{"f(v(1, 1), s=v(2, 2), *v(3, [3]))", "l[i1,i2,i3,s(102),s(124)]", "t[t[i1,i3],d{s(115):i2}]"},
		{"f(v(1, 1), *v(2, [3]), s=v(3, 2))", "l[i1,i3,i2,s(102),s(124)]", "t[t[i1,i3],d{s(115):i2}]"},
		{"f(*v(1, [3]), **v(2, {'w': 1}))", "l[i1,i2,s(102),s(124)]", "t[t[i3],d{s(119):i1}]"},
	}
	for _, c := range cases {
		prog := c01Prelude + "run(lambda: " + c.expr + ")\n"
		g := RunProgram(prog, RunOpts{Vars: c01Vars})
		r.Count("o34:"+c.expr, true)
		r.Class("order34")
		want := "l[" + c.val + "]"
		if g.Obs["_log"] != c.log || g.Obs["_res"] != want || g.Exc != "" || g.Panic != "" {
			sig := "order34"
			if g.Obs["_res"] != want {
				sig = "order34:value"
			}
			r.Mismatch(&Case{Kind: "c01order34", Sig: sig, Program: prog, Vars: c01Vars, Expected: c.log + " " + want,
				Actual: g.Obs["_log"] + " " + g.Obs["_res"] + " exc=" + g.Exc + g.Panic})
		}
	}
}

func init() {
	replayers["c01order34"] = func(c *Case) (string, string, error) {
		g := RunProgram(c.Program, RunOpts{Vars: c01Vars})
		act := g.Obs["_log"] + " " + g.Obs["_res"] + " exc=" + g.Exc + g.Panic
		if act != c.Expected+" exc=" {
			return "order34", "expected " + c.Expected + " actual " + act, nil
		}
		return "", "", nil
	}
}

//go:build verif

package harness

import (
	"fmt"
	"strings"

	"github.com/go-python/gpython/py"
)

// DumpCode renders a code object, recursively, as canonical text: every field that the
// property C18 lists, constants by type and exact value.
func DumpCode(c *py.Code) string {
	var sb strings.Builder
	dumpCode(&sb, c, 0)
	return sb.String()
}

func dumpConst(sb *strings.Builder, o py.Object, depth int) {
	switch v := o.(type) {
	case *py.Code:
		sb.WriteString("code{\n")
		dumpCode(sb, v, depth+1)
		sb.WriteString(strings.Repeat(" ", depth) + "}")
	case py.Tuple:
		sb.WriteString("t[")
		for i, it := range v {
			if i > 0 {
				sb.WriteByte(',')
			}
			dumpConst(sb, it, depth)
		}
		sb.WriteString("]")
	case *py.FrozenSet:
		sb.WriteString(Enc(v))
	default:
		if o == nil {
			sb.WriteString("<nil>")
			return
		}
		sb.WriteString(o.Type().Name + ":" + Enc(o))
	}
}

func dumpCode(sb *strings.Builder, c *py.Code, depth int) {
	pad := strings.Repeat(" ", depth)
	fmt.Fprintf(sb, "%sname=%q file=%q first=%d argc=%d kwonly=%d nlocals=%d stack=%d flags=%#x\n", pad, c.Name, c.Filename, c.Firstlineno,
		c.Argcount, c.Kwonlyargcount, c.Nlocals, c.Stacksize, c.Flags)
	fmt.Fprintf(sb, "%scode=%x\n%slnotab=%x\n", pad, c.Code, pad, c.Lnotab)
	fmt.Fprintf(sb, "%snames=%q varnames=%q freevars=%q cellvars=%q cell2arg=%v\n", pad, c.Names, c.Varnames, c.Freevars, c.Cellvars, c.Cell2arg)
	fmt.Fprintf(sb, "%sconsts=", pad)
	for i, k := range c.Consts {
		if i > 0 {
			sb.WriteString("; ")
		}
		dumpConst(sb, k, depth)
	}
	sb.WriteString("\n")
}

// AllCodes returns c and every code object nested in its constants.
func AllCodes(c *py.Code) []*py.Code {
	out := []*py.Code{c}
	for _, k := range c.Consts {
		if cc, ok := k.(*py.Code); ok {
			out = append(out, AllCodes(cc)...)
		}
	}
	return out
}

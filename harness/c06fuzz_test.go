//go:build verif

package harness

// C06, coverage-guided phase (thorough tier only): Go's native fuzzer over ASCII source text, judged by the same differential as
// the token mutations of TestC06: CPython's parser decides whether the text is inside the grammar; if it is, gpython must
// assign the same tree (positional canonical form); if it is not, gpython's pipeline must reject it with a SyntaxError.
// Text whose acceptance by CPython 3.6 rests on post-3.4 syntax is fenced by the oracle server and by c06FuzzFence.

import (
	"encoding/json"
	"os"
	"path/filepath"
	"regexp"
	"strconv"
	"strings"
	"testing"

	"github.com/go-python/gpython/py"
)

// c06Judge is the reject/accept differential without a Run: ("", ...) = agreement or fenced
func c06Judge(text string, mode py.CompileMode) (sig, expected, actual string, err error) {
	orc, err := GetOracle()
	if err != nil {
		return "", "", "", err
	}
	resp, err := orc.AST(text, string(mode))
	if err != nil {
		return "", "", "", err
	}
	got, errc, psig := gpParse(text, mode)
	if psig != "" {
		return "fuzz:" + psig, "no panic", psig, nil
	}
	switch {
	case !resp.OK:
		if normExc(resp.ExcName()) != "SyntaxError" {
			return "", "", "", nil // CPython's own limits (MemoryError, RecursionError, ValueError): no verdict
		}
		if errc == "" {
			_, cerr := py.Compile(text, "<c06>", mode, 0, true)
			if cerr == nil {
				return "fuzz:accepted-invalid:" + c11MsgClass("Error "+resp.Msg), "SyntaxError (CPython: " + resp.ExcName() + ": " + resp.Msg + ")", "accepted: " + got, nil
			} else if cls, _ := ErrClass(cerr); normExc(cls) != "SyntaxError" {
				return "fuzz:wrong-error:" + cls, "SyntaxError", cls, nil
			}
		} else if errc != "SyntaxError" {
			return "fuzz:wrong-error:" + errc, "SyntaxError", errc, nil
		}
	case resp.Tree == nil:
		return "", "", "", nil // fenced: post-3.4 syntax
	default:
		if errc != "" {
			cresp, err := orc.Compile(text, string(mode))
			if err != nil {
				return "", "", "", err
			}
			if cresp.OK {
				return "fuzz:rejected-valid:" + errc, *resp.Tree, "error " + errc, nil
			}
			return "", "", "", nil
		}
		if got != *resp.Tree {
			return "fuzz:tree:" + c06DiffClass(*resp.Tree, got), *resp.Tree, got, nil
		}
	}
	return "", "", "", nil
}

var (
	// numeric literals with underscores (PEP 515, 3.6)
	c06FenceUnderscoreNum = regexp.MustCompile(`(^|[^A-Za-z_0-9.])[0-9][0-9A-Za-z]*_[0-9A-Za-z_]*|\.[0-9]+_|[0-9]_*\.[0-9_]`)
	// a backslash line join whose next line is blank or a comment: CPython's tokenizer makes something of its own of it
	c06FenceJoinToComment = regexp.MustCompile(`\\\r?[\n\r][ \t\f]*(#|\r|\n|$)`)
	// string prefixes that exist only from 3.6 (f-strings)
	c06FenceFString = regexp.MustCompile(`(?i)(^|[^A-Za-z_0-9])(f|fr|rf)['"]`)
	// words that became (soft) keywords after 3.4
	c06FenceAsync = regexp.MustCompile(`(^|[^A-Za-z_0-9])(async|await)([^A-Za-z_0-9]|$)`)
)

var (
	c06NumRun   = regexp.MustCompile(`[0-9][0-9A-Za-z_.]*`)
	c06NumValid = regexp.MustCompile(`^(0[xX][0-9a-fA-F]+|0[oO][0-7]+|0[bB][01]+|(([0-9]+\.[0-9]*|[0-9]+)([eE][0-9]+)?)[jJ]?)$`)
)

// c06GluedNumber: a run of digits and letters that starts like a number but is no number literal as a whole ("0or", "1if", "1_0",
// "0x", "1e"): CPython's hand-written tokenizer and a maximal-munch reading of the lexical grammar differ on where the number
// ends, and CPython versions differ among themselves
func c06GluedNumber(src string) bool {
	for _, loc := range c06NumRun.FindAllStringIndex(src, -1) {
		if loc[0] > 0 {
			p := src[loc[0]-1]
			if p == '_' || p == '.' || (p >= 'A' && p <= 'Z') || (p >= 'a' && p <= 'z') {
				continue // inside an identifier or after a dot
			}
		}
		if !c06NumValid.MatchString(src[loc[0]:loc[1]]) {
			return true
		}
	}
	return false
}

// c06FuzzFence names the reason a text is outside the common 3.4 = 3.6 subset ("" = inside)
func c06FuzzFence(src string) string {
	for i := 0; i < len(src); i++ {
		b := src[i]
		if !(b == '\n' || b == '\t' || b == '\r' || b == '\f' || (b >= 0x20 && b < 0x7f)) {
			return "non-ascii-or-control"
		}
	}
	if strings.HasSuffix(strings.TrimRight(src, " \t\f\r\n"), "\\") {
		// a backslash with no following line to join: CPython 3.6 takes it, 3.8+ does not, the reference defines no meaning
		return "backslash-at-eof"
	}
	switch {
	case c06GluedNumber(src):
		return "number-glued-to-name"
	case c06FenceUnderscoreNum.MatchString(src):
		return "pep515"
	case c06FenceFString.MatchString(src):
		return "fstring"
	case c06FenceAsync.MatchString(src):
		return "async"
	case c06FenceJoinToComment.MatchString(src):
		return "line-join-to-comment"
	case strings.Contains(src, "@"), strings.Contains(src, "__future__"), strings.Contains(src, "coding"):
		// '@' outside decorators is the 3.5 matmul operator (an invalid use is still tokenised differently); __future__ features
		// and coding declarations change the grammar / the decoding
		return "matmul-future-coding"
	}
	return ""
}

func FuzzC06(f *testing.F) {
	for i, tpl := range rejectTemplates {
		if c06FuzzFence(tpl) == "" {
			f.Add(tpl, byte(i))
		}
	}
	for i, p := range c11RepoFiles() {
		if b, err := os.ReadFile(p); err == nil && len(b) < 1500 && c06FuzzFence(string(b)) == "" {
			f.Add(string(b), byte(i))
		}
	}
	for _, s := range []string{"x = 1\n", "1 if 2 else 3", "lambda a, *b, c=1, **d: (a, b)", "def f(a, b=1, *c, d, e=2, **g) -> 3:\n    return a\n", "class C(A, metaclass=M):\n    x = 1\n",
		"for a, in b:\n  pass\nelse:\n  pass\n", "try:\n x\nexcept A as e:\n y\nelse:\n z\nfinally:\n w\n", "with a as b, c:\n\tpass\n", "x = [a for b in c if d for e in f]\n",
		"x[1:2, ::3, ...] = y\n", "a = b = c, *d = e\n", "x = 'a' \"b\" '''c'''\n", "x = b'\\x00\\n' rb'\\n'\n", "x = 0x1F + 0o17 + 0b11 + 1.5e-3 + 1j + 00\n", "if a:\n    b\nelif c: d\nelse:\n        e\n",
		"from . import a\nfrom ..b import (c as d, e,)\nimport f.g as h, i\n", "global a, b\nnonlocal c\n", "del a, b[0], c.d\n", "assert a, b\nraise A from B\n", "x = yield\ny = yield from z\n",
		"a = not b in c is not d\n", "x = -a ** -b\n", "x = {1: 2, 3: 4,}\ny = {1, 2,}\nz = ()\n", "f(a, *b, c=1, **d)\n", "@a(1)\n@b\ndef f(): pass\n", "x = a if b else c if d else e\n",
		"x = 1 if 2else 3\n", "x = 1if 2 else 3\n", "x = 0x1for y in z\n", "x = 1.real\n", "x = 1..real\n", "x = 1 .real\n", "a = 1 ;\n", "a = 1; b = 2;\n", "x = (\n1,\n\n2\n)\n", "x = 1 \\\n + 2\n",
		"if 1:\n\tx\n\ty\n", "if 1:\n    x\n  y\n", "x = '\\\n'\n", "x = r'\\'' \n", "while 1: pass\nelse: pass\n", "a <> b\n", "x = `1`\n", "print >>f, x\n", "exec 'x'\n", "x = 1L\n", "x = 0777\n",
		"f(a for a in b)\n", "f(a for a in b, c)\n", "f(c, a for a in b)\n", "f((a)=1)\n", "f(a=1, a=2)\n", "lambda: (yield)\n", "x = [\n", "def f(:\n", "\f x = 1\n", "x = 1\r\ny = 2\r", "x = 1\ry = 2\n"} {
		if c06FuzzFence(s) == "" {
			f.Add(s, byte(0))
			f.Add(s, byte(2))
		}
	}
	out := os.Getenv("VERIF_OUT")
	modes := []py.CompileMode{py.ExecMode, py.EvalMode, py.SingleMode}
	// every fuzz worker is a process of its own: start its oracle interpreter here, outside the fuzzer's 10 s limit per input
	if o, err := GetOracle(); err == nil {
		o.AST("x = 1\n", "exec")
	}
	known, _ := LoadFindings()
	f.Fuzz(func(t *testing.T, src string, m byte) {
		if len(src) > 400 || c06FuzzFence(src) != "" {
			return
		}
		mode := modes[int(m)%len(modes)]
		if i := strings.LastIndexAny(src, "\n\r"); mode == py.EvalMode && i >= 0 && i+1 < len(src) && strings.TrimLeft(src[i+1:], " \t\f") == "" {
			// eval mode, last line white space only and unterminated: CPython 3.6's tokenizer reports an unexpected EOF, 3.11 does not
			return
		}
		if mode == py.SingleMode && !strings.HasSuffix(src, "\n") {
			// gpython's single mode takes newline-terminated input (its only caller, repl.Run, appends the newline itself)
			return
		}
		sig, want, got, err := c06Judge(src, mode)
		if err != nil {
			t.Skipf("oracle: %v", err)
		}
		if sig == "" {
			return
		}
		if known != nil {
			if _, ok := known.MatchSig("C06", sig); ok {
				return
			}
		}
		c := &Case{Property: "C06", Kind: "c06", Sig: sig, Program: src, Mode: string(mode), Expected: want, Actual: got, Detail: "native fuzzer"}
		if out != "" {
			if b, err := json.MarshalIndent(c, "", " "); err == nil {
				os.WriteFile(filepath.Join(out, "violation.json"), b, 0o644)
			}
		}
		t.Fatalf("C06 violation %s: mode=%s src=%s\nwant %s\ngot  %s", sig, mode, strconv.Quote(src), want, got)
	})
}

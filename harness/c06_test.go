//go:build verif

package harness

// C06 — parsing yields exactly the tree the 3.4 grammar assigns (DESIGN section 6).

import (
	"fmt"
	"os"
	"regexp"
	"runtime/debug"
	"strings"
	"testing"

	"github.com/go-python/gpython/parser"
	"github.com/go-python/gpython/py"
	"pgregory.net/rapid"
)

// gpParse parses text with gpython and returns (canon, "") or ("", error class)
func gpParse(text string, mode py.CompileMode) (canon string, errClass string, panicSig string) {
	defer func() {
		if r := recover(); r != nil {
			panicSig = "panic:" + panicTop(string(debug.Stack())) + ":" + panicClass(r)
		}
	}()
	tree, err := parser.ParseString(text, mode)
	if err != nil {
		cls, _ := ErrClass(err)
		return "", normExc(cls), ""
	}
	return AstCanon(tree), "", ""
}

// c06Class derives a coarse signature class from the first difference of two canon strings
func c06DiffClass(want, got string) string {
	// two known shapes first: kw_defaults without its None entries, and a dotted decorator kept as one name
	if normKwDefaults(want) == normKwDefaults(got) {
		return "kwdefaults-compacted"
	}
	if dottedNameRe.MatchString(got) && !dottedNameRe.MatchString(want) {
		return "dotted-decorator-name"
	}
	n := minInt(len(want), len(got))
	i := 0
	for i < n && want[i] == got[i] {
		i++
	}
	// the node name enclosing the first difference: scan back to the nearest "name(" before i
	j := i
	depth := 0
	for j > 0 {
		j--
		switch want[j] {
		case ')', ']':
			depth++
		case '(', '[':
			if depth == 0 {
				k := j
				for k > 0 && (want[k-1] >= 'a' && want[k-1] <= 'z') {
					k--
				}
				if k < j {
					return want[k:j]
				}
			} else {
				depth--
			}
		}
	}
	return "top"
}

var dottedNameRe = regexp.MustCompile(`name\(id:[A-Za-z_0-9]+\.[A-Za-z_0-9.]+,load\)`)

// normKwDefaults removes the None entries from the kw_defaults field of every arguments(...) node
func normKwDefaults(canon string) string {
	var sb strings.Builder
	rest := canon
	for {
		i := strings.Index(rest, "arguments(")
		if i < 0 {
			sb.WriteString(rest)
			return sb.String()
		}
		sb.WriteString(rest[:i+len("arguments(")])
		rest = rest[i+len("arguments("):]
		// balanced content up to the matching ")"
		depth, j := 0, 0
		for j = 0; j < len(rest); j++ {
			if rest[j] == '(' || rest[j] == '[' {
				depth++
			} else if rest[j] == ')' || rest[j] == ']' {
				if depth == 0 {
					break
				}
				depth--
			}
		}
		fields := splitTopCommas(rest[:j])
		if len(fields) == 6 {
			inner := strings.TrimSuffix(strings.TrimPrefix(fields[3], "["), "]")
			var keep []string
			for _, e := range splitTopCommas(inner) {
				if e != "None" && e != "" {
					keep = append(keep, normKwDefaults(e))
				}
			}
			fields[3] = "[" + strings.Join(keep, ",") + "]"
			for k := range fields {
				if k != 3 {
					fields[k] = normKwDefaults(fields[k])
				}
			}
		}
		sb.WriteString(strings.Join(fields, ","))
		rest = rest[j:]
	}
}

func c06Accept(r *Run, text, want string, mode py.CompileMode, kinds map[string]bool, perturb map[string]bool, fail func()) {
	orc, _ := GetOracle()
	got, errc, psig := gpParse(text, mode)
	nt := len(perturb) >= 2 || perturb["int-base"] || perturb["string-escape"]
	r.Count(string(mode)+":"+text, nt)
	// guard against generator/unparser mistakes: CPython must assign the expected tree to the text
	resp, err := orc.AST(text, string(mode))
	if err != nil {
		r.Infra("%v", err)
	}
	if !resp.OK || resp.Tree == nil || *resp.Tree != want {
		if resp.OK && resp.Tree == nil {
			r.Fenced("cpython-tree-not-3.4:" + resp.Fenced)
			return
		}
		cp := "rejected:" + resp.ExcName()
		if resp.OK {
			cp = *resp.Tree
		}
		if os.Getenv("VERIF_DEBUG_GEN") == "1" {
			fmt.Printf("GENBUG text: %q\nwant: %s\ncpy:  %s\n", text, want, cp)
			fail()
			return
		}
		r.Infra("C06 generator and CPython disagree (harness bug, not a verdict)\ntext: %q\nwant: %s\ncpy:  %s", text, want, cp)
	}
	if psig != "" {
		if !r.Mismatch(&Case{Kind: "c06", Sig: "accept:" + psig, Program: text, Mode: string(mode), Expected: want, Actual: psig}) {
			fail()
		}
		return
	}
	if errc != "" {
		// which construct? use the rarest kind present as a hint
		if !r.Mismatch(&Case{Kind: "c06", Sig: "accept:rejected:" + errc, Program: text, Mode: string(mode), Expected: want, Actual: "error " + errc}) {
			fail()
		}
		return
	}
	if got != want {
		if !r.Mismatch(&Case{Kind: "c06", Sig: "accept:tree:" + c06DiffClass(want, got), Program: text, Mode: string(mode), Expected: want, Actual: got}) {
			fail()
		}
	}
}

// c06Reject: CPython's verdict decides; when CPython accepts, the trees must agree
func c06Differential(r *Run, text string, mode py.CompileMode, class string, fail func()) {
	orc, _ := GetOracle()
	resp, err := orc.AST(text, string(mode))
	if err != nil {
		r.Infra("%v", err)
	}
	got, errc, psig := gpParse(text, mode)
	r.Count(class+":"+string(mode)+":"+text, !resp.OK)
	if resp.OK {
		r.Class(class + ":cpython-accepts")
	} else {
		r.Class(class + ":cpython-rejects")
	}
	if psig != "" {
		if !r.Mismatch(&Case{Kind: "c06", Sig: class + ":" + psig, Program: text, Mode: string(mode), Expected: "no panic", Actual: psig}) {
			fail()
		}
		return
	}
	switch {
	case !resp.OK:
		// the compile stage may still reject what the parser accepts (gpython splits the checks differently):
		// the property is about the text being rejected with SyntaxError, so ask the whole pipeline
		if errc == "" {
			_, cerr := py.Compile(text, "<c06>", mode, 0, true)
			if cerr == nil {
				if !r.Mismatch(&Case{Kind: "c06", Sig: class + ":accepted-invalid:" + c11MsgClass("Error "+resp.Msg), Program: text, Mode: string(mode), Expected: "SyntaxError (CPython: " + resp.ExcName() + ")", Actual: "accepted: " + got}) {
					fail()
				}
			} else if cls, _ := ErrClass(cerr); normExc(cls) != "SyntaxError" {
				if !r.Mismatch(&Case{Kind: "c06", Sig: class + ":wrong-error:" + cls, Program: text, Mode: string(mode), Expected: "SyntaxError", Actual: cls}) {
					fail()
				}
			}
		} else if errc != "SyntaxError" {
			if !r.Mismatch(&Case{Kind: "c06", Sig: class + ":wrong-error:" + errc, Program: text, Mode: string(mode), Expected: "SyntaxError", Actual: errc}) {
				fail()
			}
		}
	case resp.Tree == nil:
		r.Fenced("post-3.4-syntax:" + resp.Fenced)
	default:
		if errc != "" {
			// CPython's parser accepts; its compiler may not (then rejecting is right)
			cresp, err := orc.Compile(text, string(mode))
			if err != nil {
				r.Infra("%v", err)
			}
			if cresp.OK {
				if !r.Mismatch(&Case{Kind: "c06", Sig: class + ":rejected-valid:" + errc, Program: text, Mode: string(mode), Expected: *resp.Tree, Actual: "error " + errc}) {
					fail()
				}
			}
			return
		}
		if got != *resp.Tree {
			if !r.Mismatch(&Case{Kind: "c06", Sig: class + ":tree:" + c06DiffClass(*resp.Tree, got), Program: text, Mode: string(mode), Expected: *resp.Tree, Actual: got}) {
				fail()
			}
		}
	}
}

func TestC06(t *testing.T) {
	r := StartRun(t, "C06")
	defer r.Finish()
	r.Extra("rule", "accept direction: rapid-generated ASTs over the whole 3.4 grammar (all statement and expression forms, argument kinds, annotations, decorators, imports with relative levels, "+
		"slices/ext-slices, starred targets, comprehensions, literals as values) rendered by a seeded unparser with minimal parentheses from the precedence table plus spelling perturbations "+
		"(redundant parentheses, spacing, comments, backslash continuation, newlines inside brackets, indentation width/tabs, semicolons, one-line suites, trailing commas, blank lines, CRLF, "+
		"int bases, float spellings, string quotes/prefixes/escapes/implicit concatenation); oracle: the parsed tree must equal the generated tree in a positional canonical form, and CPython 3.6 "+
		"must assign the same tree (otherwise the case is a harness error). Reject direction: ~380 templates of forbidden constructs and token-level mutations of generated programs; CPython's "+
		"verdict decides (3.5+-only acceptances fenced). Non-trivial: >=2 perturbation kinds or a non-decimal/escaped literal (accept), CPython rejects (reject); distinct by (mode, text).")
	r.Extra("assumptions", []string{"CPython 3.6's parser assigns the 3.4 tree for text inside the 3.4 grammar (its AST is folded back to the 3.4 field set)"})
	r.ReplayKnown()
	if _, err := GetOracle(); err != nil {
		r.Infra("%v", err)
	}
	if r.Shard == 0 {
		for _, tpl := range rejectTemplates {
			c06Differential(r, tpl, py.ExecMode, "template", func() {})
		}
		for _, tpl := range []string{"x = 1\ny = 2\n", "x = [1,\n2]\ny = 3\n", "if a:\n    pass\nx = 1\n", "x = 1; y = 2\n", "def f():\n    pass\n\nf()\n", "1\n2\n", "pass\n\n\n", "for x in y:\n    pass\nelse:\n    pass\nz\n"} {
			c06Differential(r, tpl, py.SingleMode, "single-template", func() {})
		}
		for _, tpl := range []string{"x = 1", "pass", "1\n2", "1;", "", "\n", "(1,\n2)", "1 if 2 else 3", "lambda: 0", "yield", "*a", "a, b", "a,", "x for x in y"} {
			c06Differential(r, tpl, py.EvalMode, "eval-template", func() {})
		}
		c06Tables(r)
	}
	rapid.Check(t, func(rt *rapid.T) {
		c := &c06Gen{g: &G{T: rt}, r: r, kinds: map[string]bool{}, nperturb: map[string]bool{}, budget: 40}
		fail := func() { rt.Fatalf("C06 mismatch") }
		mode := py.ExecMode
		var toks []string
		var canon string
		switch c.g.Weighted(6, 2, 1) {
		case 0:
			n := c.g.Int(1, 3)
			var canons []string
			for i := 0; i < n; i++ {
				st, sc := c.stmtLine(3)
				toks = append(toks, st...)
				canons = append(canons, sc...)
			}
			canon = "module([" + strings.Join(canons, ",") + "])"
		case 1:
			mode = py.EvalMode
			e := c.testlist(4)
			toks = e.toks
			canon = "expression(" + e.canon + ")"
		default:
			mode = py.SingleMode
			st, sc := c.stmtLine(3)
			toks = st
			canon = "interactive([" + strings.Join(sc, ",") + "])"
		}
		text := c.render(toks, true)
		if mode == py.EvalMode {
			text = strings.TrimRight(text, "\n")
		}
		for k := range c.kinds {
			r.Class(k)
		}
		for k := range c.nperturb {
			r.Class("perturb:" + k)
		}
		r.Sample(text, text)
		c06Accept(r, text, canon, mode, c.kinds, c.nperturb, fail)
		// reject direction: one token-level mutation of the plain rendering
		if c.g.Chance(1, 2) {
			plain := append([]string(nil), toks...)
			var real []int
			for i, tk := range plain {
				if tk != tNL && tk != tIN && tk != tDE {
					real = append(real, i)
				}
			}
			if len(real) > 1 {
				p := real[c.g.N(len(real))]
				switch c.g.N(4) {
				case 0:
					plain = append(plain[:p], plain[p+1:]...)
				case 1:
					plain = append(plain[:p+1], plain[p:]...)
				case 2:
					q := real[c.g.N(len(real))]
					plain[p], plain[q] = plain[q], plain[p]
				default:
					ins := c11Alphabet[c.g.N(60)]
					plain = append(plain[:p+1], append([]string{ins}, plain[p+1:]...)...)
				}
				mt := c.render(plain, false)
				c06Differential(r, mt, mode, "mutation", fail)
			}
		}
	})
}

// c06Tables: every unparenthesised pair (thorough: triple) of operators, parsed in both and compared as trees
func c06Tables(r *Run) {
	ops := []string{"+", "-", "*", "/", "//", "%", "**", "<<", ">>", "&", "|", "^", "<", "<=", ">", ">=", "==", "!=", "in", "not in", "is", "is not", "and", "or"}
	un := []string{"", "-", "+", "~", "not "}
	var exprs []string
	for _, a := range ops {
		for _, b := range ops {
			for _, u := range un {
				for pos := 0; pos < 3; pos++ {
					if u == "" && pos > 0 {
						continue
					}
					parts := []string{"a", "b", "c"}
					parts[pos] = u + parts[pos]
					exprs = append(exprs, parts[0]+" "+a+" "+parts[1]+" "+b+" "+parts[2])
				}
			}
			exprs = append(exprs, "a "+a+" b if c "+b+" d else e", "lambda: a "+a+" b "+b+" c", "a "+a+" b.c "+b+" d[e]", "a "+a+" f(b) "+b+" -c ** -d")
		}
	}
	if r.Thorough() {
		for _, a := range ops {
			for _, b := range ops {
				for _, c := range ops {
					exprs = append(exprs, "a "+a+" b "+b+" c "+c+" d")
				}
			}
		}
	}
	for _, e := range exprs {
		c06Differential(r, e, py.EvalMode, "optable", func() {})
	}
	r.SetExhaustive(true)
}

func init() {
	replayers["c06"] = func(c *Case) (string, string, error) {
		orc, err := GetOracle()
		if err != nil {
			return "", "", err
		}
		mode := py.CompileMode(c.Mode)
		resp, err := orc.AST(c.Program, c.Mode)
		if err != nil {
			return "", "", err
		}
		got, errc, psig := gpParse(c.Program, mode)
		if psig != "" {
			return psig, psig, nil
		}
		switch {
		case !resp.OK:
			if errc == "" {
				if _, cerr := py.Compile(c.Program, "<c06>", mode, 0, true); cerr == nil {
					return "accepted-invalid", "gpython accepts text CPython rejects", nil
				}
			}
		case resp.Tree != nil:
			if errc != "" {
				cresp, err := orc.Compile(c.Program, c.Mode)
				if err != nil {
					return "", "", err
				}
				if cresp.OK {
					return "rejected-valid", "gpython rejects (" + errc + ") text CPython accepts", nil
				}
			} else if got != *resp.Tree {
				return "tree:" + c06DiffClass(*resp.Tree, got), fmt.Sprintf("expected %s actual %s", *resp.Tree, got), nil
			}
		}
		return "", "", nil
	}
}

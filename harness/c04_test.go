//go:build verif

package harness

// C04 — call arguments bind exactly as Python's algorithm says (DESIGN section 6).

import (
	"fmt"
	"sort"
	"strings"
	"testing"

	"github.com/go-python/gpython/py"
)

type c04Sig struct {
	pos     []bool // per positional parameter: has default
	star    bool
	kwonly  []bool // per keyword-only parameter: has default
	dstar   bool
	kwFirst bool // order of kw-only parameters when one has a default and one has not
}

func (s c04Sig) params() string {
	var ps []string
	for i, d := range s.pos {
		if d {
			ps = append(ps, fmt.Sprintf("p%d=%d0", i+1, i+1))
		} else {
			ps = append(ps, fmt.Sprintf("p%d", i+1))
		}
	}
	if s.star {
		ps = append(ps, "*a")
	} else if len(s.kwonly) > 0 {
		ps = append(ps, "*")
	}
	for i, d := range s.kwonly {
		if d {
			ps = append(ps, fmt.Sprintf("k%d=%d0", i+1, i+3))
		} else {
			ps = append(ps, fmt.Sprintf("k%d", i+1))
		}
	}
	if s.dstar {
		ps = append(ps, "**k")
	}
	return strings.Join(ps, ", ")
}

func (s c04Sig) ret() string {
	var ps []string
	for i := range s.pos {
		ps = append(ps, fmt.Sprintf("p%d", i+1))
	}
	if s.star {
		ps = append(ps, "a")
	}
	for i := range s.kwonly {
		ps = append(ps, fmt.Sprintf("k%d", i+1))
	}
	if s.dstar {
		ps = append(ps, "k")
	}
	return "(" + strings.Join(ps, ", ") + ",)"
}

// body is the function body: the result is built first, then the function's own **k is mutated (the caller's mapping must not see it)
func (s c04Sig) body(ind string) string {
	if s.dstar {
		return ind + "r = " + s.ret() + "\n" + ind + "r[-1]['mut'] = 1\n" + ind + "return r\n"
	}
	return ind + "return " + s.ret() + "\n"
}

// switchName returns the generator switch that covers this signature's known-finding cell ("" = none).
func (s c04Sig) switchName() string {
	// kw-only parameter without default followed by one with default
	for i := 0; i+1 < len(s.kwonly); i++ {
		if !s.kwonly[i] && s.kwonly[i+1] {
			return "c04.sig.kwonly.nodefault_before_default"
		}
	}
	return ""
}

func c04Sigs() []c04Sig {
	var out []c04Sig
	posCfg := [][]bool{{}, {false}, {true}, {false, false}, {false, true}, {true, true}}
	kwCfg := [][]bool{{}, {false}, {true}, {false, false}, {false, true}, {true, false}, {true, true}}
	for _, p := range posCfg {
		for _, star := range []bool{false, true} {
			for _, kw := range kwCfg {
				for _, ds := range []bool{false, true} {
					out = append(out, c04Sig{pos: p, star: star, kwonly: kw, dstar: ds})
				}
			}
		}
	}
	return out
}

// c04Calls enumerates the call shapes (argument lists in 3.4 order: positionals, keywords, *seq, **map).
func c04Calls() []string {
	var out []string
	kwNames := []string{"p1", "p2", "k1", "k2", "zz"}
	seqs := []string{"", "*[]", "*[7]", "*(7, 8)"}
	maps := []string{"", "**{}", "**{'p1': 91}", "**{'k1': 92}", "**{'zz': 93}", "**{'p2': 94, 'k2': 95}"}
	for np := 0; np <= 3; np++ {
		for mask := 0; mask < 32; mask++ {
			for _, sq := range seqs {
				for _, mp := range maps {
					var args []string
					for i := 0; i < np; i++ {
						args = append(args, fmt.Sprint(i+1))
					}
					for bit, n := range kwNames {
						if mask&(1<<bit) != 0 {
							args = append(args, fmt.Sprintf("%s=%d", n, 50+bit))
						}
					}
					if sq != "" {
						args = append(args, sq)
					}
					if mp != "" {
						args = append(args, mp)
					}
					out = append(out, strings.Join(args, ", "))
				}
			}
		}
	}
	// keywords spelled like the function's own *a and **k parameters: they are not parameters, so they go to **k (or are unexpected)
	for np := 0; np <= 2; np++ {
		for _, extra := range []string{"a=96", "k=97", "a=96, k=97", "p1=50, a=96", "**{'a': 96}", "**{'k': 97, 'a': 98}", "a=96, **{'k': 97}"} {
			for _, sq := range seqs {
				var args []string
				for i := 0; i < np; i++ {
					args = append(args, fmt.Sprint(i+1))
				}
				if strings.HasPrefix(extra, "**") {
					if sq != "" {
						args = append(args, sq)
					}
					args = append(args, extra)
				} else if i := strings.Index(extra, ", **"); i >= 0 {
					args = append(args, extra[:i])
					if sq != "" {
						args = append(args, sq)
					}
					args = append(args, extra[i+2:])
				} else {
					args = append(args, extra)
					if sq != "" {
						args = append(args, sq)
					}
				}
				out = append(out, strings.Join(args, ", "))
			}
		}
	}
	return out
}

// c04CallLine renders one call of callee. The *seq and **map arguments are passed as named containers S and M, which are
// reported after the call together with the result: the callee mutates its own **k (and cannot mutate *a), and neither
// container of the caller may change or be aliased by what the callee received.
func c04CallLine(callee, cl string) string {
	pre := ""
	if i := strings.Index(cl, "**{"); i >= 0 {
		pre += "M = " + cl[i+2:] + "\n"
		cl = cl[:i] + "**M"
	} else {
		pre += "M = None\n"
	}
	if i := strings.Index(cl, "*["); i >= 0 {
		j := strings.Index(cl[i:], "]") + i + 1
		pre += "S = " + cl[i+1:j] + "\n"
		cl = cl[:i] + "*S" + cl[j:]
	} else if i := strings.Index(cl, "*("); i >= 0 {
		j := strings.Index(cl[i:], ")") + i + 1
		pre += "S = " + cl[i+1:j] + "\n"
		cl = cl[:i] + "*S" + cl[j:]
	} else {
		pre += "S = None\n"
	}
	return pre + "c(lambda: (" + callee + "(" + cl + "), S, M))\n"
}

const c04Prelude = `_res = []
def c(t):
    try:
        _res.append(t())
    except TypeError:
        _res.append('TypeError')
    except Exception:
        _res.append('Exception')
`

var c04Vars = []string{"_res"}

func c04NT(call string) bool {
	kinds := 0
	if call != "" && call[0] >= '1' && call[0] <= '3' {
		kinds++
	}
	if strings.Contains(call, "=") {
		kinds++
	}
	if strings.Contains(call, "*[") || strings.Contains(call, "*(") {
		kinds++
	}
	if strings.Contains(call, "**") {
		kinds++
	}
	return kinds >= 2
}

func TestC04(t *testing.T) {
	r := StartRun(t, "C04")
	defer r.Finish()
	r.Extra("rule", "exhaustive product: signatures over <=2 positional (with/without default), *a, <=2 keyword-only (with/without default), **k (168 signatures, as def, method, lambda, decorated def, def behind a forwarding decorator and def whose parameters are all captured by an inner scope) "+
		"x call shapes with <=3 positionals, every subset of keyword names {p1,p2,k1,k2,zz}, *seq of length 0-2, **map of 6 kinds (3072 shapes); quick runs a seeded third of the signatures. "+
		"Plus Go callables of the four signatures reached as module function, through an instance and through the class. Oracle: CPython for Python functions; generator-computed "+
		"expectation for Go callables. Non-trivial: the call mixes >=2 argument kinds (or is rejected); distinct by (signature, call).")
	r.Extra("assumptions", []string{"CPython 3.6 binding algorithm equals 3.4's for calls written in 3.4 argument order"})
	r.ReplayKnown()
	if _, err := GetOracle(); err != nil {
		r.Infra("%v", err)
	}
	sigs := c04Sigs()
	calls := c04Calls()
	for si, s := range sigs {
		if si%r.NShards != r.Shard {
			continue
		}
		if !r.Thorough() && (si+int(r.Seed))%3 != 0 {
			continue
		}
		if sw := s.switchName(); sw != "" && !r.On(sw) {
			continue
		}
		forms := []int{(si / 3) % 6} // si/3: the quick tier keeps every third signature, so si%6 would fix the form
		if r.Thorough() {
			forms = []int{0, 1, 2, 3, 4, 5}
		}
		for _, form := range forms {
			var def, callee string
			switch form {
			case 0:
				def = "def f(" + s.params() + "):\n" + s.body("    ")
				callee = "f"
			case 1:
				p := s.params()
				if p != "" {
					p = ", " + p
				}
				def = "class K:\n    def m(self" + p + "):\n" + s.body("        ") + "f = K().m\n"
				callee = "f"
			case 2:
				def = "f = lambda " + s.params() + ": " + s.ret() + "\n"
				callee = "f"
			case 3:
				// decorated: the decorator expressions are evaluated before the defaults, and the function object they get is complete
				def = "def ident(fn):\n    return fn\n@ident\n@ident\ndef f(" + s.params() + "):\n" + s.body("    ")
				callee = "f"
			case 5:
				// every parameter is captured by an inner scope: the arguments are bound into cells
				def = "def f(" + s.params() + "):\n    return (lambda: " + s.ret() + ")()\n"
				callee = "f"
			default:
				// decorated by a wrapper that forwards *a, **k
				def = "def fwd(fn):\n    def w(*a, **k):\n        r = fn(*a, **k)\n        k['mutw'] = 1\n        return r\n    return w\n@fwd\ndef f(" + s.params() + "):\n" + s.body("    ")
				callee = "f"
			}
			var sb strings.Builder
			sb.WriteString(c04Prelude + def)
			for _, cl := range calls {
				sb.WriteString(c04CallLine(callee, cl))
			}
			d, err := PyDiff(sb.String(), PyDiffOpts{Vars: c04Vars})
			if err != nil {
				r.Infra("%v", err)
			}
			r.Class([]string{"def", "method", "lambda", "decorated-def", "forwarding-decorator", "parameters-in-cells"}[form])
			for _, cl := range calls {
				r.Count(fmt.Sprintf("%d:%s|%s", form, s.params(), cl), c04NT(cl))
			}
			r.Sample(s.params(), "def f("+s.params()+") called as f("+calls[(si*37)%len(calls)]+")")
			if d.Sig != "" {
				cl := "?"
				if d.Index >= 0 && d.Index < len(calls) {
					cl = calls[d.Index]
				}
				prog := c04Prelude + def + c04CallLine(callee, cl)
				kind := "value"
				if d.Expected == encStr("TypeError") {
					kind = "accepts-bad-call"
				} else if d.Actual == encStr("TypeError") {
					kind = "rejects-good-call"
				}
				r.Mismatch(&Case{Kind: "pydiff", Sig: "py:" + kind + ":" + d.Sig, Program: prog, Vars: c04Vars, Expected: d.Expected, Actual: d.Actual,
					Detail: fmt.Sprintf("signature (%s) call (%s)", s.params(), cl)})
			}
		}
	}
	r.SetExhaustive(r.Thorough())
	if r.Shard == 0 {
		c04Go(r)
	}
}

// ---------------------------------------------------------------- Go callables

type c04Obj struct{}

var c04ObjType = py.NewType("VerifObj", "harness object with Go methods")

func (o *c04Obj) Type() *py.Type { return c04ObjType }

func c04Self(self py.Object) py.Object {
	switch s := self.(type) {
	case *py.Module:
		if s == nil {
			return py.String("nil-module")
		}
		return py.String("module")
	case *c04Obj:
		return py.String("instance")
	case nil:
		return py.String("nil")
	}
	return py.String("other:" + self.Type().Name)
}

func c04Methods() []*py.Method {
	return []*py.Method{
		py.MustNewMethod("f_args", func(self py.Object, args py.Tuple) (py.Object, error) {
			return py.Tuple{c04Self(self), args.Copy(), py.None}, nil
		}, 0, ""),
		py.MustNewMethod("f_kw", func(self py.Object, args py.Tuple, kwargs py.StringDict) (py.Object, error) {
			return py.Tuple{c04Self(self), args.Copy(), kwargs.Copy()}, nil
		}, 0, ""),
		py.MustNewMethod("f_none", func(self py.Object) (py.Object, error) {
			return py.Tuple{c04Self(self), py.Tuple{}, py.None}, nil
		}, 0, ""),
		// a native function that binds its arguments with a keyword list, as the builtins do
		py.MustNewMethod("f_parse", func(self py.Object, args py.Tuple, kwargs py.StringDict) (py.Object, error) {
			var a py.Object
			var b, c py.Object = py.String("B"), py.String("C")
			if err := py.ParseTupleAndKeywords(args, kwargs, "O|OO:f_parse", []string{"a", "b", "c"}, &a, &b, &c); err != nil {
				return nil, err
			}
			return py.Tuple{a, b, c}, nil
		}, 0, ""),
		py.MustNewMethod("f_one", func(self py.Object, a py.Object) (py.Object, error) {
			return py.Tuple{c04Self(self), py.Tuple{a}, py.None}, nil
		}, 0, ""),
	}
}

func init() {
	for _, m := range c04Methods() {
		c04ObjType.Dict[m.Name] = m
	}
	py.RegisterModule(&py.ModuleImpl{
		Info:    py.ModuleInfo{Name: "verifmod", Doc: "harness module"},
		Methods: c04Methods(),
		Globals: py.StringDict{},
	})
}

type c04GoCall struct {
	text   string
	npos   int
	kws    []string
	dup    bool
	seqLen int
}

func c04GoCalls() []c04GoCall {
	var out []c04GoCall
	seqs := []struct {
		t string
		n int
	}{{"", 0}, {"*[]", 0}, {"*[7]", 1}, {"*(7, 8)", 2}}
	maps := []struct {
		t  string
		ks []string
	}{{"", nil}, {"**{}", nil}, {"**{'x': 91}", []string{"x"}}, {"**{'y': 92, 'z': 93}", []string{"y", "z"}}}
	for np := 0; np <= 3; np++ {
		for mask := 0; mask < 4; mask++ {
			for _, sq := range seqs {
				for _, mp := range maps {
					var args []string
					for i := 0; i < np; i++ {
						args = append(args, fmt.Sprint(i+1))
					}
					var kws []string
					for bit, n := range []string{"x", "w"} {
						if mask&(1<<bit) != 0 {
							args = append(args, fmt.Sprintf("%s=%d", n, 50+bit))
							kws = append(kws, n)
						}
					}
					dup := false
					for _, k := range mp.ks {
						for _, k2 := range kws {
							if k == k2 {
								dup = true
							}
						}
					}
					kws = append(kws, mp.ks...)
					if sq.t != "" {
						args = append(args, sq.t)
					}
					if mp.t != "" {
						args = append(args, mp.t)
					}
					out = append(out, c04GoCall{strings.Join(args, ", "), np, kws, dup, sq.n})
				}
			}
		}
	}
	return out
}

// expected encoded result of calling Go callable fn (through route) with call c
func c04GoExpect(fn, route string, c c04GoCall) string {
	if c.dup {
		return encStr("TypeError")
	}
	nargs := c.npos + c.seqLen
	var args []string
	for i := 0; i < c.npos; i++ {
		args = append(args, fmt.Sprintf("i%d", i+1))
	}
	for i := 0; i < c.seqLen; i++ {
		args = append(args, fmt.Sprintf("i%d", 7+i))
	}
	recv := "module"
	switch route {
	case "instance":
		recv = "instance"
	case "class":
		// the first positional argument (written by the caller, not counted in npos) is the receiver
		recv = "instance"
	}
	if len(c.kws) > 0 && fn != "f_kw" {
		return encStr("TypeError")
	}
	switch fn {
	case "f_none":
		if nargs != 0 {
			return encStr("TypeError")
		}
	case "f_one":
		if nargs != 1 {
			return encStr("TypeError")
		}
	}
	kw := "N"
	if fn == "f_kw" {
		vals := map[string]string{"x": "i50", "w": "i51", "y": "i92", "z": "i93"}
		var parts []string
		for _, k := range c.kws {
			v := vals[k]
			if k == "x" && !strings.Contains(c.text, "x=50") {
				v = "i91"
			}
			parts = append(parts, encStr(k)+":"+v)
		}
		sort.Strings(parts)
		kw = "d{" + strings.Join(parts, ",") + "}"
	}
	return "t[" + encStr(recv) + ",t[" + strings.Join(args, ",") + "]," + kw + "]"
}

// c04GoParse: a Go callable binding through py.ParseTupleAndKeywords against the Python def of the same signature (run by CPython)
func c04GoParse(r *Run) {
	var calls []string
	for np := 0; np <= 4; np++ {
		for mask := 0; mask < 16; mask++ {
			for _, star := range []string{"", "**{'b': 9}", "*(7,)", "**{}"} {
				var args []string
				for i := 0; i < np; i++ {
					args = append(args, fmt.Sprint(i+1))
				}
				for bit, n := range []string{"a", "b", "c", "z"} {
					if mask&(1<<bit) != 0 {
						args = append(args, fmt.Sprintf("%s=%d", n, 50+bit))
					}
				}
				if star != "" {
					if strings.HasPrefix(star, "*(") {
						// positional unpacking goes before the keywords
						args = append([]string{star}, args...)
						if np > 0 {
							continue
						}
					} else {
						args = append(args, star)
					}
				}
				if star == "**{'b': 9}" && mask&2 != 0 {
					continue // a repeated keyword is rejected when the call is evaluated, before binding
				}
				calls = append(calls, strings.Join(args, ", "))
			}
		}
	}
	var sb strings.Builder
	sb.WriteString(c04Prelude + "try:\n    import verifmod\n    f_parse = verifmod.f_parse\nexcept ImportError:\n    def f_parse(a, b='B', c='C'):\n        return (a, b, c)\n")
	for _, cl := range calls {
		sb.WriteString("c(lambda: f_parse(" + cl + "))\n")
	}
	d, err := PyDiff(sb.String(), PyDiffOpts{Vars: c04Vars})
	if err != nil {
		r.Infra("%v", err)
	}
	r.Class("go:f_parse:keyword-list")
	for _, cl := range calls {
		r.Count("go:f_parse("+cl+")", true)
	}
	r.Sample("go:f_parse", "verifmod.f_parse("+calls[len(calls)/2]+") against def f_parse(a, b='B', c='C')")
	if d.Sig != "" {
		cl := "?"
		if d.Index >= 0 && d.Index < len(calls) {
			cl = calls[d.Index]
		}
		kind := "value"
		if d.Expected == encStr("TypeError") {
			kind = "accepts-bad-call"
		} else if d.Actual == encStr("TypeError") {
			kind = "rejects-good-call"
		}
		prog := c04Prelude + "try:\n    import verifmod\n    f_parse = verifmod.f_parse\nexcept ImportError:\n    def f_parse(a, b='B', c='C'):\n        return (a, b, c)\nc(lambda: f_parse(" + cl + "))\n"
		r.Mismatch(&Case{Kind: "pydiff", Sig: "go:f_parse:" + kind + ":" + d.Sig, Program: prog, Vars: c04Vars, Expected: d.Expected, Actual: d.Actual, Detail: "f_parse(" + cl + ")"})
	}
}

func c04Go(r *Run) {
	c04GoParse(r)
	calls := c04GoCalls()
	setup := func(ctx py.Context, mod *py.Module) {
		mod.Globals["VerifObj"] = c04ObjType
		mod.Globals["inst"] = &c04Obj{}
	}
	routes := []string{"module", "instance"}
	if r.On("c04.go.through_class") {
		routes = append(routes, "class")
	}
	for _, fn := range []string{"f_args", "f_kw", "f_none", "f_one"} {
		for _, route := range routes {
			var sb strings.Builder
			sb.WriteString(c04Prelude + "import verifmod\n")
			var expect []string
			var texts []string
			for _, c := range calls {
				var callee, argtext string
				argtext = c.text
				switch route {
				case "module":
					callee = "verifmod." + fn
				case "instance":
					callee = "inst." + fn
				default:
					callee = "VerifObj." + fn
					if argtext == "" {
						argtext = "inst"
					} else {
						argtext = "inst, " + argtext
					}
				}
				line := callee + "(" + argtext + ")"
				texts = append(texts, line)
				sb.WriteString("c(lambda: " + line + ")\n")
				expect = append(expect, c04GoExpect(fn, route, c))
			}
			g := RunProgram(sb.String(), RunOpts{Vars: c04Vars, Setup: setup})
			r.Class("go:" + fn + ":" + route)
			for i := range calls {
				r.Count("go:"+texts[i], true)
			}
			r.Sample("go:"+fn+route, texts[len(texts)/3])
			report := func(i int, actual string) {
				kind := "value"
				if expect[i] == encStr("TypeError") {
					kind = "accepts-bad-call"
				} else if actual == encStr("TypeError") {
					kind = "rejects-good-call"
				}
				prog := c04Prelude + "import verifmod\nc(lambda: " + texts[i] + ")\n"
				r.Mismatch(&Case{Kind: "c04go", Sig: fmt.Sprintf("go:%s:%s:%s", fn, route, kind), Program: prog, Expected: "l[" + expect[i] + "]", Actual: actual, Detail: texts[i]})
			}
			if g.Panic != "" || g.Exc != "" || g.Timeout {
				// find the first call that fails on its own
				found := false
				for i := range calls {
					p := c04Prelude + "import verifmod\nc(lambda: " + texts[i] + ")\n"
					g1 := RunProgram(p, RunOpts{Vars: c04Vars, Setup: setup})
					if g1.Panic != "" || g1.Exc != "" {
						r.Mismatch(&Case{Kind: "c04go", Sig: fmt.Sprintf("go:%s:%s:panic:%s:%s%s", fn, route, g1.PanicTop, g1.Panic, g1.Exc), Program: p, Expected: "l[" + expect[i] + "]", Actual: "panic/exception " + g1.ExcMsg, Detail: texts[i]})
						found = true
						break
					}
				}
				if !found {
					r.Mismatch(&Case{Kind: "c04go", Sig: fmt.Sprintf("go:%s:%s:batch-failure", fn, route), Program: sb.String(), Expected: "runs", Actual: g.Panic + g.Exc + g.ExcMsg})
				}
				continue
			}
			els := SplitTop(g.Obs["_res"])
			if len(els) != len(calls) {
				r.Mismatch(&Case{Kind: "c04go", Sig: fmt.Sprintf("go:%s:%s:count", fn, route), Program: sb.String(), Expected: fmt.Sprint(len(calls)), Actual: fmt.Sprint(len(els))})
				continue
			}
			for i := range calls {
				if els[i] != expect[i] {
					report(i, els[i])
					break
				}
			}
		}
	}
}

func init() {
	replayers["c04go"] = func(c *Case) (string, string, error) {
		setup := func(ctx py.Context, mod *py.Module) {
			mod.Globals["VerifObj"] = c04ObjType
			mod.Globals["inst"] = &c04Obj{}
		}
		g := RunProgram(c.Program, RunOpts{Vars: c04Vars, Setup: setup})
		if g.Panic != "" || g.Exc != "" {
			return "go:panic", g.Panic + g.Exc + " " + g.ExcMsg, nil
		}
		if g.Obs["_res"] != c.Expected {
			return "go:value", "expected " + c.Expected + " actual " + g.Obs["_res"], nil
		}
		return "", "", nil
	}
}

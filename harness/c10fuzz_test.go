//go:build verif

package harness

// C10, third phase: random hostile programs. The enumeration in c10_test.go applies every callable to fixed values; this
// phase composes steps whose interesting behaviour needs a history: callbacks (key functions, special methods, generators)
// that fail from their n-th call on or mutate the container being operated on, extreme indices and repeat counts,
// out-of-range bases with long digit strings, rebinding of interpreter state (sys.path, __class__, ...) before it is used.

import (
	"bufio"
	"bytes"
	"encoding/json"
	"fmt"
	"os"
	"os/exec"
	"strings"
	"testing"
	"time"

	"pgregory.net/rapid"
)

const c10FuzzPrelude = `import sys
import math
L = [3, 1, 2, 5, 4]
L2 = [1, 2, 'x']
T = (1, 2, 3, 4)
D = {'a': 1, 'b': 2, 'c': 3}
S = {1, 2, 3}
B = b'abcd'
N = [0]
def act(k):
    if k == 1:
        del L[:]
    elif k == 2:
        if len(L) < 60:
            L.append(9)
    elif k == 3:
        if len(L) < 60:
            L.extend(range(40))
    elif k == 4:
        D.clear()
    elif k == 5:
        if len(D) < 60:
            D['n' + str(len(D))] = 1
    elif k == 6:
        S.clear()
    elif k == 7:
        if len(S) < 60:
            S.add(len(S) + 10)
    elif k == 8:
        raise ValueError('act')
    elif k == 9:
        del L[1:]
    elif k == 10:
        if len(L) < 60:
            L.insert(0, 7)
    elif k == 11:
        if L:
            L.pop()
    elif k == 12:
        if len(L2) < 60:
            L2.append(L2)
def cb(k, after, ret):
    def f(*a):
        N[0] += 1
        if N[0] > after:
            act(k)
        if ret == 'arg':
            return a[0] if a else None
        if ret == 'picky':
            return a[0] + 1
        return ret
    return f
class M:
    def __init__(self, k, after, v):
        self.k = k
        self.after = after
        self.v = v
        self.n = 0
    def hit(self):
        self.n += 1
        if self.n > self.after:
            act(self.k)
    def __eq__(self, o):
        self.hit()
        return self.v
    def __ne__(self, o):
        self.hit()
        return self.v
    def __lt__(self, o):
        self.hit()
        return self.v
    def __gt__(self, o):
        self.hit()
        return self.v
    def __index__(self):
        self.hit()
        return self.v
    def __len__(self):
        self.hit()
        return self.v
    def __bool__(self):
        self.hit()
        return self.v
    def __iter__(self):
        self.hit()
        return iter(tuple(L))
    def __next__(self):
        self.hit()
        return self.v
    def __getitem__(self, i):
        self.hit()
        if isinstance(i, int) and i > 3:
            raise IndexError
        return self.v
    def __contains__(self, x):
        self.hit()
        return self.v
    def __call__(self, *a):
        self.hit()
        return self.v
    def __repr__(self):
        self.hit()
        return self.v
    def __str__(self):
        self.hit()
        return self.v
    def __int__(self):
        self.hit()
        return self.v
    def __float__(self):
        self.hit()
        return self.v
    def __enter__(self):
        self.hit()
        return self.v
    def __exit__(self, *a):
        self.hit()
        return self.v
def gen(k, at, n):
    for i in range(n):
        if i == at:
            act(k)
        yield i
def pairs(k, at, n):
    for i in range(n):
        if i == at:
            act(k)
        yield ('k' + str(i), i)
def gfin(k, n):
    for i in range(n):
        try:
            if i == k:
                return i
            yield i
        finally:
            yield 'f'
def gnest(k):
    n = 0
    while n < 3:
        try:
            try:
                if n == k:
                    return n
                yield n
            finally:
                yield ('f', n)
        except ValueError:
            yield 'caught'
        n += 1
def gwith(k):
    with M(k, 1, True):
        try:
            yield 1
            act(k)
            return 2
        finally:
            yield 3
def again(g, n):
    # keeps resuming a generator after it is exhausted or has raised
    out = []
    for _i in range(n):
        try:
            out.append(next(g))
        except StopIteration as e:
            out.append(('stop', e.value))
        except Exception as e:
            out.append('exc')
    return out
class K:
    x = 1
class K2(K):
    pass
inst = K()
`

type c10Fz struct {
	g         *G
	kinds     map[string]bool
	recursive bool // self-containing containers may be built (off while the unbounded-recursion finding is open)
}

func (c *c10Fz) k() string {
	if !c.recursive {
		return fmt.Sprint(c.g.Int(0, 11)) // action 12 makes L2 contain itself
	}
	return fmt.Sprint(c.g.Int(0, 12))
}
func (c *c10Fz) after() string { return fmt.Sprint(c.g.Ints(0, 0, 1, 2, 3, 5)) }

// an integer, small or extreme
func (c *c10Fz) num() string {
	return c.g.Str("0", "1", "-1", "2", "3", "5", "-2", "-5", "7", "10", "100", "-100", "2**62", "2**63", "2**63-1", "-2**63", "-2**63-1", "2**64", "-2**64", "10**30", "-10**30", "None", "True")
}

func (c *c10Fz) small() string {
	return c.g.Str("0", "1", "-1", "2", "3", "5", "-2", "-5", "7", "None")
}

// a repeat count: small, or so large that the request fails at once (counts in between measure allocation, not robustness)
func (c *c10Fz) rep() string {
	return c.g.Str("0", "1", "-1", "2", "3", "2**62", "2**63", "2**63-1", "2**64", "-2**64", "2**61", "True")
}

func (c *c10Fz) ret() string {
	return c.g.Str("'arg'", "'arg'", "'picky'", "0", "1", "None", "'x'", "1.5", "[]", "-1", "2**70", "True", "(1, 2)")
}

func (c *c10Fz) cb() string {
	c.kinds["callback"] = true
	return "cb(" + c.k() + ", " + c.after() + ", " + c.ret() + ")"
}

func (c *c10Fz) m() string {
	c.kinds["special-method-object"] = true
	return "M(" + c.k() + ", " + c.after() + ", " + c.g.Str("0", "1", "-1", "2", "True", "False", "None", "'s'", "2**70", "-2**70", "1.5", "[]", "(1,)", "list(L)", "10**5") + ")"
}

func (c *c10Fz) gen() string {
	c.kinds["generator"] = true
	f := c.g.Str("gen", "gen", "gen", "pairs")
	return f + "(" + c.k() + ", " + fmt.Sprint(c.g.Int(0, 4)) + ", " + fmt.Sprint(c.g.Int(0, 6)) + ")"
}

func (c *c10Fz) seq() string {
	return c.g.Str("L", "L", "L2", "T", "'abcdef'", "B", "range(10)", "list(L)", "D", "S", "'h\\u20aci'", "range(5, -7, -3)")
}

// a sequence that is indexed, sliced or measured but never walked: may be astronomically long
func (c *c10Fz) bigseq() string {
	if c.g.Chance(1, 4) {
		return c.g.Str("range(2**70)", "range(5, -2**64, -3)", "range(-2**63, 2**63)", "range(2**63-1)")
	}
	return c.seq()
}

func (c *c10Fz) idx() string {
	if c.g.Chance(1, 6) {
		return c.m()
	}
	return c.num()
}

func (c *c10Fz) slice() string {
	part := func() string {
		if c.g.Chance(1, 3) {
			return ""
		}
		return c.idx()
	}
	s := part() + ":" + part()
	if c.g.Bool() {
		s += ":" + part()
	}
	return s
}

func (c *c10Fz) val() string {
	switch c.g.N(8) {
	case 0:
		return c.m()
	case 1:
		return c.cb()
	case 2:
		return c.gen()
	case 3:
		s := c.seq()
		if !c.recursive {
			// a stored value must not make a container reach itself
			switch s {
			case "L", "L2":
				s = "list(" + s + ")"
			case "D":
				s = "dict(D)"
			case "S":
				s = "set(S)"
			}
		}
		return s
	case 4:
		return c.g.Str("None", "'a'", "''", "1.5", "float('nan')", "float('inf')", "1j", "b'x'", "()", "[]", "{}", "set()", "K", "inst", "int", "type", "sys", "math", "KeyError", "KeyError('k')", "NotImplemented", "Ellipsis", "len", "''.join", "slice(1, 2)", "lambda: 0")
	default:
		return c.num()
	}
}

func (c *c10Fz) digits() string {
	n := c.g.Ints(0, 1, 2, 17, 18, 19, 20, 25, 40, 70)
	d := c.g.Str("1", "0", "9", "7", "z", "f", "_", " ")
	s := "'" + c.g.Str("", "", "-", "+", " ", "0x", "0b", "0o") + "' + '" + d + "' * " + fmt.Sprint(n)
	return "(" + s + ")"
}

func (c *c10Fz) stmt() string {
	g := c.g
	kind := func(k string) { c.kinds[k] = true }
	switch g.N(40) {
	case 0:
		kind("sort-with-callback")
		return g.Str("L.sort(key="+c.cb()+")", "L.sort(key="+c.cb()+", reverse=True)", "L2.sort(key="+c.cb()+")", "sorted("+c.seq()+", key="+c.cb()+")", "L.sort(key="+c.m()+")", "L.sort(reverse="+c.m()+")")
	case 1:
		kind("minmax-with-callback")
		return g.Str("min", "max") + "(" + c.seq() + ", key=" + c.cb() + ")"
	case 2:
		kind("map-filter")
		return "list(" + g.Str("map", "filter") + "(" + c.cb() + ", " + c.seq() + "))"
	case 3:
		kind("slice-assign-from-iterator")
		return g.Str("L", "L", "L2") + "[" + c.slice() + "] = " + g.Str(c.gen(), c.gen(), c.m(), c.seq(), "L")
	case 4:
		kind("slice-delete")
		return "del " + g.Str("L", "L", "L2") + "[" + c.slice() + "]"
	case 5:
		kind("index")
		return c.bigseq() + "[" + c.idx() + "]"
	case 6:
		kind("slice")
		return g.Str(c.bigseq()+"["+c.slice()+"]", "len("+c.bigseq()+"["+c.slice()+"])", c.num()+" in "+c.seq()+"["+c.slice()+"]")
	case 7:
		kind("item-assign")
		return g.Str("L", "L2", "D", "T", "B") + "[" + c.idx() + "] = " + c.val()
	case 8:
		kind("search-with-hostile-eq")
		mm := c.m()
		return g.Str(mm+" in "+c.seq(), "L.count("+mm+")", "L.remove("+mm+")", "L.index("+mm+")", "L == ["+mm+", "+mm+"]", "["+mm+"] == L", "("+mm+",) == T", mm+" in ["+mm+"]")
	case 9:
		kind("repeat")
		return g.Str(c.seq()+" * "+c.rep(), c.rep()+" * "+c.seq(), "L *= "+c.rep(), "(1,) * "+c.rep(), "'ab' * "+c.rep(), "b'ab' * "+c.rep(), "[[]] * "+c.rep())
	case 10:
		kind("extend-from-iterator")
		src := g.Str(c.gen(), c.gen(), c.m(), "L", c.seq())
		return g.Str("L.extend("+src+")", "L += "+src, "L2 += "+src, "L = L + "+src, "S.update("+src+")", "S |= "+src)
	case 11:
		kind("construct-from-iterator")
		return g.Str("list", "tuple", "set", "frozenset", "dict", "bytes", "sum", "any", "all", "sorted", "''.join", "b''.join", "enumerate", "iter", "reversed", "max", "min", "len", "str", "repr", "bool", "int", "float", "range") + "(" + g.Str(c.gen(), c.m(), c.val()) + ")"
	case 12:
		kind("dict-update-from-iterator")
		return g.Str("D.update("+c.gen()+")", "dict("+c.gen()+")", "D.update("+c.m()+")", "D.update(a="+c.val()+")", "dict.fromkeys("+c.val()+")", "D.setdefault("+c.val()+", 1)", "D.get("+c.val()+")", "D.pop("+c.val()+")", "D["+c.val()+"]", "del D["+c.val()+"]")
	case 13:
		kind("mutate-while-iterating")
		return "for _x in " + g.Str("L", "L", "D", "S", "L2", "T", "D.items()", "D.keys()", "D.values()", "reversed(L)", "enumerate(L)", "zip(L, L2)", "iter(L)") + ":\n    act(" + c.k() + ")"
	case 14:
		kind("comprehension-mutating")
		return g.Str("[act("+c.k()+") for _x in L]", "{act("+c.k()+") for _x in S}", "{str(_x): act("+c.k()+") for _x in L}", "list(act("+c.k()+") for _x in L)")
	case 15:
		kind("unpack")
		return g.Str("a, b = ", "a, *b = ", "*a, b, c = ", "a, (b, c) = ", "[a, b, c] = ") + g.Str(c.gen(), c.m(), c.seq())
	case 16:
		kind("int-from-string")
		return g.Str("int("+c.digits()+", "+g.Str("0", "1", "2", "8", "10", "16", "36", "37", "-1", "-2**64", "2**64", "None", "True", c.m())+")", "int("+c.digits()+")", "float("+c.digits()+")", "int("+c.val()+", "+c.num()+")", "int("+c.m()+")", "complex("+c.digits()+")")
	case 17:
		kind("format")
		f := g.Str("'%s'", "'%d'", "'%r'", "'%c'", "'%5.2f'", "'%x'", "'%s %s'", "'%(a)s'", "'%'", "'%*d'", "'%.*f'", "'%z'", "'{}'", "'{0} {1}'", "'{a}'", "'{'", "'{!r}'", "'{:>10}'", "'{0[0]}'", "'{0.x}'")
		arg := g.Str(c.m(), c.val(), "("+c.val()+", "+c.val()+")", "D", "inst")
		return g.Str(f+" % "+arg, f+".format("+arg+")", f+".format(*"+arg+")", f+".format(**D)", "format("+arg+", "+f+")")
	case 18:
		kind("numeric-extremes")
		a, b, d := c.num(), c.num(), c.small()
		return g.Str("round("+g.Str("1.5", "2.675", "1e308", "float('nan')", "5", "2**70")+", "+b+")", "divmod("+a+", "+b+")", a+" // "+b, a+" % "+b, a+" ** "+d, "pow("+a+", "+d+", "+b+")", a+" << "+d, a+" >> "+b, "math.factorial("+d+")", "math.ldexp(1.5, "+b+")", "math.pow("+a+", "+d+")", "float("+a+")", "abs("+a+")", "-("+a+")", "~("+a+")", a+" / "+b, "hash("+a+")", "bin("+a+")", "hex("+a+")", "oct("+a+")", "chr("+a+")", "bytes(["+a+"])", "bytes("+d+")", "("+a+").bit_length()", "math.sqrt("+a+")", "math.floor("+g.Str("1e308", "float('inf')", "float('nan')", "2.5")+")")
	case 19:
		kind("range-extremes")
		rr := "range(" + c.num() + ", " + c.num() + ", " + c.num() + ")"
		return g.Str("len("+rr+")", rr+"["+c.idx()+"]", rr+"["+c.slice()+"]", c.num()+" in range("+c.small()+", "+c.small()+", "+c.small()+")", "next(iter("+rr+"))", rr+" == "+rr, "repr("+rr+")", "range("+c.m()+")", "reversed("+rr+")")
	case 20:
		kind("attribute-protocol")
		o := g.Str("K", "K2", "inst", "L", "1", "int", "type", "None", "sys", "math", "cb", "M", c.m(), "object", "KeyError", "KeyError('k')", "len", "''.join", "gen(0, 0, 1)")
		n := g.Str("'__class__'", "'__dict__'", "'__name__'", "'x'", "'__bases__'", "'__mro__'", "'__doc__'", "'__init__'", "'__new__'", "'__call__'", "'__getattribute__'", "''", "'\\u20ac'", c.val())
		return g.Str("getattr("+o+", "+n+")", "getattr("+o+", "+n+", None)", "setattr("+o+", "+n+", "+c.val()+")", "delattr("+o+", "+n+")", "hasattr("+o+", "+n+")", "dir("+o+")", "vars("+o+")", "isinstance("+o+", "+c.val()+")", "type("+o+")("+c.val()+")")
	case 21:
		kind("rebind-interpreter-state")
		tail := g.Str("import nosuchmod", "import math", "from math import *", "__import__('nosuchmod')", "__import__("+c.val()+")", "from nosuch import x", "import sys")
		return g.Str("sys.path = "+c.val(), "sys.modules = "+c.val(), "sys.path.append("+c.val()+")", "sys.argv = "+c.val(), "del sys.path", "sys.stdout = "+c.val(), "__builtins__ = "+c.val(), "sys.path[:] = "+c.gen()) + "\n" + tail
	case 22:
		kind("type-construction")
		return g.Str("type("+c.val()+", "+c.val()+", "+c.val()+")", "type('X', (K, "+c.val()+"), {})", "type('X', (), "+c.val()+")", "type('X', (K,), {'a': 1})("+c.val()+")", "inst.__class__ = "+c.val(), "K.__bases__ = "+c.val(), "K.__name__ = "+c.val(), "inst.__dict__ = "+c.val(), "K.__mro__", "K.x = "+c.val()+"\ndel K.x\ndel K.x", "object.__new__("+c.val()+")", "K.__new__("+c.val()+")", "int.__new__("+c.val()+")", "list.__init__("+c.val()+")")
	case 23:
		kind("exec-eval-compile")
		s := g.Str("'1 +'", "'x = ('", "''", "'\\x00'", "'(' * 200 + ')' * 200", "'lambda: (yield)'", "'def f():\\n  return'", "'1' + ' + 1' * 3000", "'\\\\'", "'\"\\\\N{bad}\"'", "'a' * 1000", "'[' * 100", "b'1'", c.val())
		return g.Str("eval("+s+")", "exec("+s+")", "compile("+s+", 'f', "+g.Str("'exec'", "'eval'", "'single'", "'bad'", c.val())+")", "exec("+s+", "+c.val()+")", "eval("+s+", "+c.val()+", "+c.val()+")")
	case 24:
		if g.Chance(1, 3) {
			kind("generator-resumed-after-exhaustion")
			mk := g.Str("gfin("+c.small()+", "+fmt.Sprint(g.Int(0, 4))+")", "gnest("+c.small()+")", "gwith("+c.k()+")", c.gen())
			return g.Str("again("+mk+", "+fmt.Sprint(g.Int(1, 9))+")", "_g = "+mk+"\nlist(_g)\nagain(_g, 3)", "_g = "+mk+"\nagain(_g, 2)\n_g.send("+c.val()+")\nagain(_g, 4)", "for _a in "+mk+":\n    again("+mk+", 5)")
		}
		kind("generator-protocol")
		gg := c.gen()
		return g.Str("_g = "+gg+"\nnext(_g)\n_g.send("+c.val()+")", "_g = "+gg+"\n_g.send("+c.val()+")", "next("+c.val()+")", "next("+c.val()+", "+c.val()+")", "_g = "+gg+"\nlist(_g)\nnext(_g)", "iter("+c.cb()+", "+c.val()+")", "_i = iter("+c.cb()+", 0)\nnext(_i)\nnext(_i)\nnext(_i)", "_g = (x for x in "+c.val()+")\nnext(_g)", "_g = "+gg+"\nfor _a in _g:\n    for _b in _g:\n        pass", "next("+c.m()+")")
	case 25:
		kind("string-methods")
		s := g.Str("'abcabc'", "''", "'h\\u20aci'", "' a b '", "'%s'", "'a' * 50")
		meth := g.Str("find", "rfind", "index", "count", "split", "rsplit", "replace", "startswith", "endswith", "join", "strip", "lstrip", "center", "ljust", "zfill", "partition", "splitlines", "encode", "format", "translate", "expandtabs", "title", "__mul__", "__getitem__", "__mod__", "__contains__")
		args := g.Str("", c.val(), c.val()+", "+c.val(), c.val()+", "+c.num()+", "+c.num(), "'a', "+c.num(), "'', "+c.num()+", "+c.num(), c.m())
		return s + "." + meth + "(" + args + ")"
	case 26:
		kind("list-methods")
		meth := g.Str("append", "extend", "insert", "pop", "remove", "index", "count", "reverse", "sort", "clear", "copy", "__setitem__", "__delitem__", "__getitem__", "__imul__", "__iadd__", "__contains__", "__eq__", "__lt__")
		args := g.Str("", c.val(), c.idx()+", "+c.val(), c.val()+", "+c.val()+", "+c.val(), "slice("+c.idx()+", "+c.idx()+", "+c.idx()+"), "+c.val(), "slice("+c.idx()+", "+c.idx()+", "+c.idx()+")")
		return g.Str("L", "L", "L2", "T", "B", "D", "S") + "." + meth + "(" + args + ")"
	case 27:
		kind("print-repr-of-hostile")
		o := g.Str(c.m(), "["+c.m()+"]", "{'a': "+c.m()+"}", "("+c.m()+",)", "L2", "KeyError("+c.m()+")", "{"+c.m()+"}")
		return g.Str("print("+o+")", "repr("+o+")", "str("+o+")", "print("+o+", sep="+c.val()+", end="+c.val()+")", "print("+o+", file="+c.val()+")", "'%s' % ("+o+",)", "ascii("+o+")")
	case 28:
		kind("set-ops")
		o := g.Str(c.gen(), c.m(), c.seq(), "S", c.val())
		return g.Str("S.add("+c.val()+")", "S.remove("+c.val()+")", "S.discard("+c.val()+")", "S.pop()", "S | "+o, "S & "+o, "S - "+o, "S ^ "+o, "S.union("+o+")", "S.intersection("+o+")", "S.difference("+o+")", "S.issubset("+o+")", "S <= "+o, "S == "+o, "S -= "+o, "S &= "+o, "set("+o+") == S", "frozenset("+o+")")
	case 29:
		kind("with-and-raise")
		return g.Str("with "+c.m()+" as _w:\n    act("+c.k()+")", "with "+c.val()+":\n    pass", "raise "+c.val(), "raise "+c.val()+" from "+c.val(), "try:\n    act(8)\nexcept "+c.val()+":\n    pass", "try:\n    act(8)\nfinally:\n    act("+c.k()+")", "assert "+c.m()+", "+c.m())
	case 30:
		kind("call-shapes")
		f := g.Str("cb(0, 0, 1)", "len", "K", "M", "gen", "''.join", "print", "sorted", "int", "dict", c.val())
		return g.Str(f+"(*"+c.val()+")", f+"(**"+c.val()+")", f+"(*"+c.gen()+", **D)", f+"(1, *"+c.m()+")", f+"(a=1, **{'a': 2})", f+"(**{1: 2})", f+"("+c.val()+", "+c.val()+", "+c.val()+", "+c.val()+")", f+"(key="+c.val()+")", f+"()")
	case 31:
		kind("compare-mixed")
		op := g.Str("<", "<=", "==", "!=", ">", ">=", "is", "in", "not in")
		return c.val() + " " + op + " " + c.val()
	case 32:
		kind("binary-mixed")
		op := g.Str("+", "-", "*", "/", "//", "%", "&", "|", "^", "and", "or")
		return c.val() + " " + op + " " + g.Str(c.val(), c.small())
	case 33:
		kind("augmented-mixed")
		op := g.Str("+=", "-=", "*=", "/=", "//=", "%=", "&=", "|=", "^=", ">>=")
		tgt := g.Str("L", "L2", "T", "S", "D", "B", "L[0]", "D['a']", "inst.x", "K.x", "N[0]")
		return tgt + " " + op + " " + g.Str(c.val(), c.small(), c.gen())
	case 34:
		kind("bytes-ops")
		return g.Str("bytes("+c.val()+")", "bytes("+c.gen()+")", "bytes("+c.digits()+", "+c.val()+")", "B + "+c.val(), "B["+c.slice()+"]", "B["+c.idx()+"]", c.val()+" in B", "B.decode("+c.val()+")", "B == "+c.val(), "B < "+c.val(), "B += "+c.val(), "bytes([256])", "bytes([-1])", "bytes(["+c.m()+"])")
	case 35:
		if !c.recursive {
			return "repr(L2)"
		}
		kind("recursive-structures")
		return g.Str("L2.append(L2)\nrepr(L2)", "L2.append(L2)\nL2 == L2", "D['self'] = D\nrepr(D)", "L2.append(L2)\nL3 = [1, 2, 'x']\nL3.append(L3)\nL2 == L3", "L.append(L)\nL.sort()", "L.append(L)\nL.count(L)", "L.append(L)\nsorted(L, key="+c.cb()+")", "T2 = (L2,)\nL2.append(T2)\nrepr(T2)", "L2.append(L2)\nstr(L2) in L2", "L2.append(L2)\nL2 * 3",
			"D['self'] = D\n"+g.Str("'%s'", "'%r'", "'%c'", "'%d'", "'%5.2f'", "'%z'", "'{}'")+" % ("+g.Str("D", "cb", "inst", "T, cb(0, 0, 1)", "M(0, 0, D)", "sys", "K")+",)",
			"D['self'] = D\n"+g.Str("D[D]", "D[L]", "del D[D]", "D.get(D)", "D in D", "inst.d = D\nrepr(inst)", "K.d = D\nrepr(K)\nstr(K())", "KeyError(D)", "raise KeyError(D)", "print(D)", "'{}'.format(D)", "'{0[self]}'.format(D)", "format(D)", "str(sys.modules)", "repr(globals())", "str(locals())", "dir()", "vars()"))
	case 36:
		kind("dict-views-and-mutation")
		return g.Str("_v = D.keys()\nact("+c.k()+")\nlist(_v)", "_v = D.items()\nD.clear()\nlen(_v)", "_i = iter(D)\nact("+c.k()+")\nnext(_i)", "_i = iter(S)\nact("+c.k()+")\nnext(_i)", "_i = iter(L)\nact("+c.k()+")\nnext(_i)\nnext(_i)", "_i = reversed(L)\nact("+c.k()+")\nnext(_i)", "_i = iter(L)\nact(1)\nlist(_i)", "D.popitem()", "_i = enumerate(L)\nact("+c.k()+")\nlist(_i)", "_i = zip(L, "+c.gen()+")\nact("+c.k()+")\nlist(_i)")
	case 37:
		kind("builtins-odd-args")
		f := g.Str("abs", "all", "any", "ascii", "bin", "bool", "bytes", "callable", "chr", "compile", "complex", "dict", "dir", "divmod", "enumerate", "float", "format", "frozenset", "getattr", "hasattr", "hex", "int", "isinstance", "iter", "len", "list", "map", "max", "min", "next", "oct", "ord", "pow", "print", "range", "repr", "reversed", "round", "set", "setattr", "slice", "sorted", "str", "sum", "tuple", "type", "zip", "open", "globals", "locals", "vars", "id", "hash", "issubclass", "filter", "delattr", "bytearray", "memoryview", "super", "property", "staticmethod", "classmethod", "object", "exec", "eval")
		n := g.Int(0, 3)
		var args []string
		for i := 0; i < n; i++ {
			args = append(args, c.val())
		}
		return f + "(" + strings.Join(args, ", ") + ")"
	case 38:
		kind("method-on-any-value")
		meth := g.Str("__add__", "__mul__", "__rmul__", "__getitem__", "__setitem__", "__delitem__", "__contains__", "__len__", "__iter__", "__next__", "__eq__", "__lt__", "__hash__", "__repr__", "__str__", "__call__", "__init__", "__new__", "__getattribute__", "__setattr__", "__index__", "__int__", "__float__", "__bool__", "__pow__", "__rpow__", "__lshift__", "__divmod__", "__format__", "__enter__", "__exit__", "send", "close", "throw", "copy", "items", "sort", "update", "pop")
		n := g.Int(0, 3)
		var args []string
		for i := 0; i < n; i++ {
			args = append(args, c.val())
		}
		return g.Str("("+c.val()+")."+meth+"("+strings.Join(args, ", ")+")", "type("+c.val()+")."+meth+"("+strings.Join(args, ", ")+")")
	default:
		kind("star-import-and-all")
		return g.Str("__all__ = "+c.val(), "del "+g.Str("L", "D", "act", "M", "sys", "nosuch"), "globals().clear()\nlen", "globals()["+c.val()+"] = 1", "locals()[1] = 2", "del globals()['L']\nL", "global_x = "+c.val()+"\ndel global_x\nglobal_x")
	}
}

func c10FuzzProgram(c *c10Fz) string {
	n := c.g.Int(1, 5)
	var sb strings.Builder
	for i := 0; i < n; i++ {
		st := c.stmt()
		sb.WriteString("try:\n" + Indent(st, 4))
		if !strings.HasSuffix(st, "\n") {
			sb.WriteString("\n")
		}
		sb.WriteString("except Exception:\n    pass\n")
	}
	return sb.String()
}

// c10FuzzRun runs one program in this process and returns the signature of a violation ("" = none)
func c10FuzzRun(body string, timeout time.Duration) (sig, detail string, inconclusive bool) {
	res := RunProgram(c10FuzzPrelude+body, RunOpts{Timeout: timeout})
	switch {
	case res.Timeout:
		return "", "", true
	case res.Panic != "":
		return "panic:" + res.PanicTop + ":" + res.Panic, "Go panic: " + res.ExcMsg, false
	case strings.HasPrefix(res.Exc, "<goerror"):
		return "non-python-error:" + res.Exc, res.Exc + ": " + res.ExcMsg, false
	}
	return "", "", false
}

// c10Worker is a child process (this test binary in worker mode) that runs programs in-process. A fatal error
// (stack overflow, out of memory, concurrent map access) kills the child, not the search: the parent classifies
// the death from the child's stderr and starts a new child.
type c10Worker struct {
	cmd    *exec.Cmd
	in     *bufio.Writer
	out    *bufio.Reader
	stderr *bytes.Buffer
}

type c10WorkerResp struct {
	Sig    string `json:"sig"`
	Detail string `json:"detail"`
	Incon  bool   `json:"incon"`
}

func startC10Worker() (*c10Worker, error) {
	cmd := exec.Command(os.Args[0], "-test.run", "^TestC10FuzzWorker$", "-test.timeout", "0")
	cmd.Env = append(os.Environ(), "VERIF_C10_WORKER=1", "GOTRACEBACK=single", "VERIF_REPLAY=")
	w := &c10Worker{cmd: cmd, stderr: &bytes.Buffer{}}
	cmd.Stderr = w.stderr
	stdin, err := cmd.StdinPipe()
	if err != nil {
		return nil, err
	}
	stdout, err := cmd.StdoutPipe()
	if err != nil {
		return nil, err
	}
	if err := cmd.Start(); err != nil {
		return nil, err
	}
	w.in = bufio.NewWriter(stdin)
	w.out = bufio.NewReaderSize(stdout, 1<<20)
	return w, nil
}

func (w *c10Worker) stop() {
	if w == nil || w.cmd == nil {
		return
	}
	w.cmd.Process.Kill()
	w.cmd.Wait()
}

// run sends one program; died reports that the child process ended instead of answering
func (w *c10Worker) run(body string) (resp c10WorkerResp, died bool, stderr string) {
	b, _ := json.Marshal(body)
	w.in.Write(append(b, '\n'))
	w.in.Flush()
	for {
		line, err := w.out.ReadString('\n')
		if err != nil {
			w.cmd.Wait()
			return resp, true, w.stderr.String()
		}
		if !strings.HasPrefix(line, "C10RESP ") {
			continue // test framework chatter
		}
		if err := json.Unmarshal([]byte(line[8:]), &resp); err != nil {
			w.stop()
			return resp, true, "bad worker answer: " + line
		}
		return resp, false, ""
	}
}

func TestC10FuzzWorker(t *testing.T) {
	if os.Getenv("VERIF_C10_WORKER") == "" {
		t.Skip("worker mode only")
	}
	in := bufio.NewReaderSize(os.Stdin, 1<<20)
	for {
		line, err := in.ReadString('\n')
		if err != nil {
			return
		}
		var body string
		if err := json.Unmarshal([]byte(line), &body); err != nil {
			return
		}
		var resp c10WorkerResp
		resp.Sig, resp.Detail, resp.Incon = c10FuzzRun(body, 20*time.Second)
		b, _ := json.Marshal(resp)
		fmt.Printf("C10RESP %s\n", b)
		if resp.Incon {
			// the abandoned goroutine may still be spinning: let the parent start a fresh worker
			os.Exit(0)
		}
	}
}

func c10DeathKind(stderr string) string {
	switch {
	case strings.Contains(stderr, "stack exceeds") || strings.Contains(stderr, "stack overflow"):
		return "go-stack-overflow"
	case strings.Contains(stderr, "out of memory") || strings.Contains(stderr, "cannot allocate"):
		return "out-of-memory"
	case strings.Contains(stderr, "concurrent map"):
		return "concurrent-map-access"
	}
	return "died"
}

func TestC10Fuzz(t *testing.T) {
	r := StartRun(t, "C10")
	defer r.Finish()
	var w *c10Worker
	defer func() { w.stop() }()
	rapid.Check(t, func(rt *rapid.T) {
		c := &c10Fz{g: &G{T: rt}, kinds: map[string]bool{}, recursive: r.On("c10.fuzz.recursive_structures")}
		body := c10FuzzProgram(c)
		for k := range c.kinds {
			r.Class("fuzz:" + k)
		}
		r.Count("fuzz:"+body, true)
		r.Sample("fuzz:"+body, body)
		if w == nil {
			var err error
			if w, err = startC10Worker(); err != nil {
				r.Infra("cannot start the worker process: %v", err)
			}
		}
		resp, died, stderr := w.run(body)
		cs := &Case{Kind: "c10fuzz", Program: body, Expected: "a value or a Python exception"}
		if died {
			w = nil
			kind := c10DeathKind(stderr)
			if len(stderr) > 1500 {
				stderr = stderr[:1500]
			}
			cs.Sig, cs.Expected, cs.Actual = "program-abort:"+kind+":fuzz", "the process survives; failures are Python exceptions", "the process running this program died: "+stderr
			r.AddExtra("fuzz_process_deaths", 1)
			if !r.Mismatch(cs) {
				rt.Fatalf("C10 violation %s", cs.Sig)
			}
			return
		}
		if resp.Incon {
			w.stop()
			w = nil
			r.Inconclusive()
			r.Note("fuzz program did not finish within 20 s (inconclusive): %q", body)
			return
		}
		if resp.Sig != "" {
			cs.Sig, cs.Actual = resp.Sig, resp.Detail
			if !r.Mismatch(cs) {
				rt.Fatalf("C10 violation %s", cs.Sig)
			}
		}
	})
}

func init() {
	replayers["c10fuzz"] = func(c *Case) (string, string, error) {
		w, err := startC10Worker()
		if err != nil {
			return "", "", err
		}
		defer w.stop()
		resp, died, stderr := w.run(c.Program)
		if died {
			if len(stderr) > 600 {
				stderr = stderr[:600]
			}
			return "program-abort:" + c10DeathKind(stderr) + ":fuzz", stderr, nil
		}
		return resp.Sig, resp.Detail, nil
	}
}

//go:build verif

package harness

// Bytecode verifier / abstract interpreter for the 3.4 bytecode set gpython emits (DESIGN section 6, C12).
// The transfer functions are the VM's effects as read from vm/eval.go, not the compiler's stack-effect table.

import (
	"fmt"
	"sort"
	"strings"

	"github.com/go-python/gpython/py"
	"github.com/go-python/gpython/vm"
)

const (
	whyBreak    = 'b'
	whyReturn   = 'r'
	whyContinue = 'c'
	whySilenced = 's'
	whyExc      = 'e'
)

// slot tags: v value, n the constant None, w why code, r return value under a why code,
// x saved exception slot, T/V/E traceback/value/type of the raised exception, 0 the nil slot left by WITH_CLEANUP
type bSlot struct {
	t      byte
	why    byte
	target int
}

type bBlock struct {
	kind    byte // L loop, X except, F finally, H except-handler
	handler int
	level   int
}

type bState struct {
	stack  []bSlot
	blocks []bBlock
}

func (s bState) clone() bState {
	return bState{append([]bSlot(nil), s.stack...), append([]bBlock(nil), s.blocks...)}
}

func (s bState) key() string {
	var sb strings.Builder
	for _, x := range s.stack {
		sb.WriteByte(x.t)
		if x.t == 'w' {
			fmt.Fprintf(&sb, "%c%d", x.why, x.target)
		}
	}
	sb.WriteByte('|')
	for _, b := range s.blocks {
		fmt.Fprintf(&sb, "%c%d@%d,", b.kind, b.handler, b.level)
	}
	return sb.String()
}

// shape is what the VM hook can observe: depth and the block stack
func (s bState) shape() string {
	var sb strings.Builder
	fmt.Fprintf(&sb, "%d|", len(s.stack))
	for _, b := range s.blocks {
		fmt.Fprintf(&sb, "%c%d@%d,", b.kind, b.handler, b.level)
	}
	return sb.String()
}

type bInstr struct {
	pc, next int
	op       vm.OpCode
	arg      int
}

// BcReport is the result of verifying one code object
type BcReport struct {
	Errors   []string
	States   map[int]map[string]bool // pc -> observable shapes
	MaxDepth int
	NInstr   int
	NStates  int
	HasSetup bool
	HasJump  bool
	OpsSeen  map[vm.OpCode]bool
}

func decodeCode(code string) ([]bInstr, map[int]int, []string) {
	var out []bInstr
	idx := map[int]int{}
	var errs []string
	ext := 0
	hasExt := false
	start := 0
	for pc := 0; pc < len(code); {
		op := vm.OpCode(code[pc])
		if !hasExt {
			start = pc
		}
		if op.HAS_ARG() {
			if pc+2 >= len(code) {
				errs = append(errs, fmt.Sprintf("pc %d: truncated operand", pc))
				break
			}
			arg := int(code[pc+1]) | int(code[pc+2])<<8
			pc += 3
			if op == vm.EXTENDED_ARG {
				ext = arg
				hasExt = true
				continue
			}
			if hasExt {
				arg |= ext << 16
				hasExt = false
			}
			idx[start] = len(out)
			out = append(out, bInstr{start, pc, op, arg})
		} else {
			pc++
			idx[start] = len(out)
			out = append(out, bInstr{start, pc, op, 0})
		}
	}
	return out, idx, errs
}

type bVerifier struct {
	code *py.Code
	ins  []bInstr
	idx  map[int]int
	rep  *BcReport
	seen map[int]map[string]bState
	work []struct {
		pc int
		st bState
	}
	errset map[string]bool
}

func (v *bVerifier) errorf(pc int, format string, a ...interface{}) {
	msg := fmt.Sprintf(format, a...)
	key := msg
	if !v.errset[key] {
		v.errset[key] = true
		op := "?"
		if i, ok := v.idx[pc]; ok {
			op = v.ins[i].op.String()
		}
		v.rep.Errors = append(v.rep.Errors, fmt.Sprintf("pc %d (%s): %s", pc, op, msg))
	}
}

// mergeable slots: v and n join to v
func joinSlot(a, b bSlot) (bSlot, bool) {
	if a == b {
		return a, true
	}
	if (a.t == 'v' || a.t == 'n') && (b.t == 'v' || b.t == 'n') {
		return bSlot{t: 'v'}, true
	}
	return a, false
}

func (v *bVerifier) push(pc int, st bState, from int) {
	if _, ok := v.idx[pc]; !ok {
		if pc == len(v.code.Code) {
			v.errorf(from, "control flows off the end of the code")
		} else {
			v.errorf(from, "jump target %d is not an instruction boundary", pc)
		}
		return
	}
	if len(st.stack) > int(v.code.Stacksize) {
		v.errorf(from, "stack depth %d exceeds the declared stack size %d", len(st.stack), v.code.Stacksize)
	}
	if len(st.stack) > v.rep.MaxDepth {
		v.rep.MaxDepth = len(st.stack)
	}
	if len(st.blocks) > 20 {
		v.errorf(from, "block stack depth %d exceeds CO_MAXBLOCKS", len(st.blocks))
		return
	}
	m := v.seen[pc]
	if m == nil {
		m = map[string]bState{}
		v.seen[pc] = m
	}
	// states with the same observable shape are joined slot by slot (v/n only); distinct shapes coexist
	shape := st.shape()
	if old, ok := m[shape]; ok {
		changed := false
		merged := old.clone()
		for i := range old.stack {
			j, ok := joinSlot(old.stack[i], st.stack[i])
			if !ok {
				// incompatible tags at the same depth: keep both (path sensitive), keyed by full key
				k := st.key()
				if _, dup := m[k]; !dup {
					m[k] = st
					v.work = append(v.work, struct {
						pc int
						st bState
					}{pc, st})
				}
				return
			}
			if j != old.stack[i] {
				merged.stack[i] = j
				changed = true
			}
		}
		if changed {
			m[shape] = merged
			v.work = append(v.work, struct {
				pc int
				st bState
			}{pc, merged})
		}
		return
	}
	m[shape] = st
	if len(m) > 64 {
		v.errorf(pc, "more than 64 distinct states at one instruction (verifier limit)")
		return
	}
	v.work = append(v.work, struct {
		pc int
		st bState
	}{pc, st})
}

// unwind simulates the VM's block unwinding for a why code
func (v *bVerifier) unwind(pc int, st bState, why bSlot, retval bool) {
	st = st.clone()
	for len(st.blocks) > 0 {
		b := st.blocks[len(st.blocks)-1]
		if b.kind == 'L' && why.why == whyContinue {
			v.push(why.target, st, pc)
			return
		}
		st.blocks = st.blocks[:len(st.blocks)-1]
		if b.kind == 'H' {
			if len(st.stack) < b.level+3 {
				v.errorf(pc, "unwinding an except-handler block with depth %d < level+3 = %d", len(st.stack), b.level+3)
				return
			}
			st.stack = st.stack[:b.level]
			continue
		}
		if len(st.stack) > b.level {
			st.stack = st.stack[:b.level]
		} else if len(st.stack) < b.level {
			v.errorf(pc, "stack depth %d below the level %d of the block being unwound", len(st.stack), b.level)
			return
		}
		if b.kind == 'L' && why.why == whyBreak {
			v.push(b.handler, st, pc)
			return
		}
		if why.why == whyExc && (b.kind == 'X' || b.kind == 'F') {
			st.blocks = append(st.blocks, bBlock{'H', -1, len(st.stack)})
			st.stack = append(st.stack, bSlot{t: 'x'}, bSlot{t: 'x'}, bSlot{t: 'x'}, bSlot{t: 'T'}, bSlot{t: 'V'}, bSlot{t: 'E'})
			v.push(b.handler, st, pc)
			return
		}
		if b.kind == 'F' {
			if why.why == whyReturn || why.why == whyContinue {
				st.stack = append(st.stack, bSlot{t: 'r'})
			}
			st.stack = append(st.stack, why)
			v.push(b.handler, st, pc)
			return
		}
	}
	// the frame is left
	if why.why == whyBreak {
		v.errorf(pc, "break with no enclosing loop block")
	}
	if why.why == whyContinue {
		v.errorf(pc, "continue with no enclosing loop block")
	}
}

func nargsOf(arg int) int { return (arg & 0xff) + 2*((arg>>8)&0xff) }

// VerifyCode verifies one code object (not its nested ones)
func VerifyCode(code *py.Code, nlines int) *BcReport {
	rep := &BcReport{States: map[int]map[string]bool{}, OpsSeen: map[vm.OpCode]bool{}}
	ins, idx, derr := decodeCode(code.Code)
	rep.Errors = append(rep.Errors, derr...)
	rep.NInstr = len(ins)
	v := &bVerifier{code: code, ins: ins, idx: idx, rep: rep, seen: map[int]map[string]bState{}, errset: map[string]bool{}}
	if len(ins) == 0 {
		rep.Errors = append(rep.Errors, "empty code")
		return rep
	}
	ncell := len(code.Cellvars) + len(code.Freevars)
	// line table
	if len(code.Lnotab)%2 != 0 {
		rep.Errors = append(rep.Errors, "lnotab has odd length")
	} else {
		addr, line := 0, int(code.Firstlineno)
		if line < 1 {
			rep.Errors = append(rep.Errors, fmt.Sprintf("first line number %d < 1", line))
		}
		for i := 0; i+1 < len(code.Lnotab); i += 2 {
			addr += int(code.Lnotab[i])
			line += int(code.Lnotab[i+1])
			if addr > len(code.Code) {
				rep.Errors = append(rep.Errors, fmt.Sprintf("lnotab address %d beyond the code (%d bytes)", addr, len(code.Code)))
				break
			}
		}
		if nlines > 0 && line > nlines {
			rep.Errors = append(rep.Errors, fmt.Sprintf("lnotab reaches line %d but the source has %d lines", line, nlines))
		}
	}
	v.push(0, bState{}, 0)
	for len(v.work) > 0 {
		w := v.work[len(v.work)-1]
		v.work = v.work[:len(v.work)-1]
		v.step(w.pc, w.st, ncell)
		if len(rep.Errors) > 20 {
			break
		}
	}
	for pc, m := range v.seen {
		shapes := map[string]bool{}
		for _, st := range m {
			shapes[st.shape()] = true
			rep.NStates++
		}
		rep.States[pc] = shapes
	}
	sort.Strings(rep.Errors)
	return rep
}

func (v *bVerifier) step(pc int, st bState, ncell int) {
	in := v.ins[v.idx[pc]]
	v.rep.OpsSeen[in.op] = true
	code := v.code
	st = st.clone()
	depth := func() int { return len(st.stack) }
	pop := func(n int) bool {
		if depth() < n {
			v.errorf(pc, "stack underflow: needs %d, depth %d", n, depth())
			return false
		}
		// never pop below the level of the innermost block's protected values
		st.stack = st.stack[:depth()-n]
		return true
	}
	pushv := func(n int) {
		for i := 0; i < n; i++ {
			st.stack = append(st.stack, bSlot{t: 'v'})
		}
	}
	next := func() { v.push(in.next, st, pc) }
	needName := func() {
		if in.arg >= len(code.Names) {
			v.errorf(pc, "name index %d out of range (%d names)", in.arg, len(code.Names))
		}
	}
	needFast := func() {
		if in.arg >= len(code.Varnames) {
			v.errorf(pc, "local index %d out of range (%d locals)", in.arg, len(code.Varnames))
		}
	}
	needCell := func() {
		if in.arg >= ncell {
			v.errorf(pc, "cell index %d out of range (%d cells+frees)", in.arg, ncell)
		}
	}
	// an except-handler block on top requires its three saved values to stay on the stack
	for _, b := range st.blocks {
		if b.kind == 'H' && depth() < b.level+3 {
			v.errorf(pc, "depth %d below the saved exception of an except-handler block (level %d)", depth(), b.level)
			return
		}
	}
	switch in.op {
	case vm.NOP:
		next()
	case vm.POP_TOP, vm.PRINT_EXPR, vm.IMPORT_STAR:
		if pop(1) {
			next()
		}
	case vm.ROT_TWO:
		if depth() < 2 {
			v.errorf(pc, "stack underflow")
			return
		}
		n := depth()
		st.stack[n-1], st.stack[n-2] = st.stack[n-2], st.stack[n-1]
		next()
	case vm.ROT_THREE:
		if depth() < 3 {
			v.errorf(pc, "stack underflow")
			return
		}
		n := depth()
		st.stack[n-1], st.stack[n-2], st.stack[n-3] = st.stack[n-2], st.stack[n-3], st.stack[n-1]
		next()
	case vm.DUP_TOP:
		if depth() < 1 {
			v.errorf(pc, "stack underflow")
			return
		}
		st.stack = append(st.stack, st.stack[depth()-1])
		next()
	case vm.DUP_TOP_TWO:
		if depth() < 2 {
			v.errorf(pc, "stack underflow")
			return
		}
		st.stack = append(st.stack, st.stack[depth()-2], st.stack[depth()-1])
		next()
	case vm.UNARY_POSITIVE, vm.UNARY_NEGATIVE, vm.UNARY_NOT, vm.UNARY_INVERT, vm.GET_ITER:
		if pop(1) {
			pushv(1)
			next()
		}
	case vm.BINARY_POWER, vm.BINARY_MULTIPLY, vm.BINARY_MODULO, vm.BINARY_ADD, vm.BINARY_SUBTRACT, vm.BINARY_SUBSCR, vm.BINARY_FLOOR_DIVIDE, vm.BINARY_TRUE_DIVIDE,
		vm.INPLACE_FLOOR_DIVIDE, vm.INPLACE_TRUE_DIVIDE, vm.INPLACE_ADD, vm.INPLACE_SUBTRACT, vm.INPLACE_MULTIPLY, vm.INPLACE_MODULO, vm.BINARY_LSHIFT, vm.BINARY_RSHIFT,
		vm.BINARY_AND, vm.BINARY_XOR, vm.BINARY_OR, vm.INPLACE_POWER, vm.INPLACE_LSHIFT, vm.INPLACE_RSHIFT, vm.INPLACE_AND, vm.INPLACE_XOR, vm.INPLACE_OR:
		if pop(2) {
			pushv(1)
			next()
		}
	case vm.COMPARE_OP:
		if in.arg > 10 {
			v.errorf(pc, "comparison operator %d out of range", in.arg)
		}
		if pop(2) {
			pushv(1)
			next()
		}
	case vm.STORE_MAP:
		if pop(2) {
			next()
		}
	case vm.STORE_SUBSCR:
		if pop(3) {
			next()
		}
	case vm.DELETE_SUBSCR:
		if pop(2) {
			next()
		}
	case vm.LOAD_BUILD_CLASS:
		pushv(1)
		next()
	case vm.YIELD_VALUE:
		if pop(1) {
			pushv(1)
			next()
		}
	case vm.YIELD_FROM:
		if pop(2) {
			pushv(1)
			next()
		}
	case vm.RETURN_VALUE:
		if pop(1) {
			v.unwind(pc, st, bSlot{t: 'w', why: whyReturn}, true)
		}
	case vm.BREAK_LOOP:
		v.unwind(pc, st, bSlot{t: 'w', why: whyBreak}, false)
	case vm.CONTINUE_LOOP:
		if _, ok := v.idx[in.arg]; !ok {
			v.errorf(pc, "continue target %d is not an instruction boundary", in.arg)
			return
		}
		v.unwind(pc, st, bSlot{t: 'w', why: whyContinue, target: in.arg}, false)
	case vm.RAISE_VARARGS:
		if in.arg > 2 {
			v.errorf(pc, "raise with %d arguments", in.arg)
		}
		if pop(in.arg) {
			v.unwind(pc, st, bSlot{t: 'w', why: whyExc}, false)
		}
	case vm.POP_BLOCK:
		if len(st.blocks) == 0 {
			v.errorf(pc, "POP_BLOCK with an empty block stack")
			return
		}
		b := st.blocks[len(st.blocks)-1]
		if b.kind == 'H' {
			v.errorf(pc, "POP_BLOCK pops an except-handler block")
			return
		}
		st.blocks = st.blocks[:len(st.blocks)-1]
		if depth() < b.level {
			v.errorf(pc, "POP_BLOCK with depth %d below the block level %d", depth(), b.level)
			return
		}
		st.stack = st.stack[:b.level]
		next()
	case vm.POP_EXCEPT:
		if len(st.blocks) == 0 || st.blocks[len(st.blocks)-1].kind != 'H' {
			v.errorf(pc, "POP_EXCEPT without an except-handler block on top")
			return
		}
		b := st.blocks[len(st.blocks)-1]
		st.blocks = st.blocks[:len(st.blocks)-1]
		if depth() < b.level+3 {
			v.errorf(pc, "POP_EXCEPT with depth %d < level+3 = %d", depth(), b.level+3)
			return
		}
		st.stack = st.stack[:b.level]
		next()
	case vm.END_FINALLY:
		if depth() < 1 {
			v.errorf(pc, "END_FINALLY on an empty stack")
			return
		}
		top := st.stack[depth()-1]
		switch top.t {
		case 'n':
			pop(1)
			next()
		case 'w':
			pop(1)
			switch top.why {
			case whyReturn, whyContinue:
				if depth() < 1 || st.stack[depth()-1].t != 'r' {
					v.errorf(pc, "END_FINALLY: no return value under a return/continue code")
					return
				}
				pop(1)
				v.unwind(pc, st, top, false)
			case whyBreak:
				v.unwind(pc, st, top, false)
			case whySilenced:
				if len(st.blocks) == 0 || st.blocks[len(st.blocks)-1].kind != 'H' {
					v.errorf(pc, "END_FINALLY(silenced) without an except-handler block")
					return
				}
				b := st.blocks[len(st.blocks)-1]
				st.blocks = st.blocks[:len(st.blocks)-1]
				if depth() < b.level+3 {
					v.errorf(pc, "END_FINALLY(silenced): depth %d < level+3", depth())
					return
				}
				st.stack = st.stack[:b.level]
				next()
			}
		case 'E':
			if depth() < 3 {
				v.errorf(pc, "END_FINALLY: exception triple incomplete")
				return
			}
			pop(3)
			v.unwind(pc, st, bSlot{t: 'w', why: whyExc}, false)
		default:
			v.errorf(pc, "END_FINALLY pops a %q slot (neither None, a why code nor an exception)", string(top.t))
		}
	case vm.WITH_CLEANUP:
		if depth() < 2 {
			v.errorf(pc, "WITH_CLEANUP: stack underflow")
			return
		}
		top := st.stack[depth()-1]
		switch top.t {
		case 'n', 'v':
			// [exit, None] -> [None]
			if top.t == 'v' {
				v.errorf(pc, "WITH_CLEANUP with an ordinary value on top")
				return
			}
			st.stack = append(st.stack[:depth()-2], top)
			next()
		case 'w':
			if top.why == whyReturn || top.why == whyContinue {
				if depth() < 3 {
					v.errorf(pc, "WITH_CLEANUP: stack underflow")
					return
				}
				r := st.stack[depth()-2]
				st.stack = append(st.stack[:depth()-3], r, top)
			} else {
				st.stack = append(st.stack[:depth()-2], top)
			}
			next()
		case 'E':
			if depth() < 7 {
				v.errorf(pc, "WITH_CLEANUP: exception shape needs 7 slots, depth %d", depth())
				return
			}
			if len(st.blocks) == 0 || st.blocks[len(st.blocks)-1].kind != 'H' {
				v.errorf(pc, "WITH_CLEANUP: exception shape without an except-handler block")
				return
			}
			n := depth()
			// exit func at position 7 is overwritten by the shifted saved triple; position 4 becomes nil
			st.stack[n-7], st.stack[n-6], st.stack[n-5], st.stack[n-4] = bSlot{t: 'x'}, bSlot{t: 'x'}, bSlot{t: 'x'}, bSlot{t: '0'}
			st.blocks[len(st.blocks)-1].level--
			next() // exception not suppressed
			st2 := st.clone()
			st2.stack = append(st2.stack, bSlot{t: 'w', why: whySilenced})
			v.push(in.next, st2, pc)
		default:
			v.errorf(pc, "WITH_CLEANUP with a %q slot on top", string(top.t))
		}
	case vm.STORE_NAME, vm.STORE_GLOBAL:
		needName()
		if pop(1) {
			next()
		}
	case vm.DELETE_NAME, vm.DELETE_GLOBAL:
		needName()
		next()
	case vm.UNPACK_SEQUENCE:
		if pop(1) {
			pushv(in.arg)
			next()
		}
	case vm.UNPACK_EX:
		if pop(1) {
			pushv((in.arg & 0xff) + (in.arg >> 8) + 1)
			next()
		}
	case vm.FOR_ITER:
		if depth() < 1 {
			v.errorf(pc, "FOR_ITER on an empty stack")
			return
		}
		ex := st.clone()
		ex.stack = ex.stack[:len(ex.stack)-1]
		v.push(in.next+in.arg, ex, pc)
		pushv(1)
		next()
	case vm.STORE_ATTR:
		needName()
		if pop(2) {
			next()
		}
	case vm.DELETE_ATTR:
		needName()
		if pop(1) {
			next()
		}
	case vm.LOAD_CONST:
		if in.arg >= len(code.Consts) {
			v.errorf(pc, "constant index %d out of range (%d constants)", in.arg, len(code.Consts))
			pushv(1)
		} else if code.Consts[in.arg] == py.None {
			st.stack = append(st.stack, bSlot{t: 'n'})
		} else {
			pushv(1)
		}
		next()
	case vm.LOAD_NAME, vm.LOAD_GLOBAL:
		needName()
		pushv(1)
		next()
	case vm.BUILD_TUPLE, vm.BUILD_LIST, vm.BUILD_SET, vm.BUILD_SLICE:
		if pop(in.arg) {
			pushv(1)
			next()
		}
	case vm.BUILD_MAP:
		pushv(1)
		next()
	case vm.LOAD_ATTR:
		needName()
		if pop(1) {
			pushv(1)
			next()
		}
	case vm.IMPORT_NAME:
		needName()
		if pop(2) {
			pushv(1)
			next()
		}
	case vm.IMPORT_FROM:
		needName()
		if depth() < 1 {
			v.errorf(pc, "IMPORT_FROM on an empty stack")
			return
		}
		pushv(1)
		next()
	case vm.JUMP_FORWARD:
		v.push(in.next+in.arg, st, pc)
	case vm.JUMP_ABSOLUTE:
		v.push(in.arg, st, pc)
	case vm.JUMP_IF_FALSE_OR_POP, vm.JUMP_IF_TRUE_OR_POP:
		if depth() < 1 {
			v.errorf(pc, "stack underflow")
			return
		}
		v.push(in.arg, st, pc)
		pop(1)
		next()
	case vm.POP_JUMP_IF_FALSE, vm.POP_JUMP_IF_TRUE:
		if pop(1) {
			v.push(in.arg, st, pc)
			next()
		}
	case vm.SETUP_LOOP, vm.SETUP_EXCEPT, vm.SETUP_FINALLY:
		kind := map[vm.OpCode]byte{vm.SETUP_LOOP: 'L', vm.SETUP_EXCEPT: 'X', vm.SETUP_FINALLY: 'F'}[in.op]
		h := in.next + in.arg
		if _, ok := v.idx[h]; !ok {
			v.errorf(pc, "block handler %d is not an instruction boundary", h)
			return
		}
		st.blocks = append(st.blocks, bBlock{kind, h, depth()})
		if kind != 'L' {
			// any instruction inside may raise: the handler is entered with the exception six-pack
			v.unwind(pc, st, bSlot{t: 'w', why: whyExc}, false)
		}
		next()
	case vm.SETUP_WITH:
		if depth() < 1 {
			v.errorf(pc, "SETUP_WITH on an empty stack")
			return
		}
		h := in.next + in.arg
		if _, ok := v.idx[h]; !ok {
			v.errorf(pc, "block handler %d is not an instruction boundary", h)
			return
		}
		st.stack[depth()-1] = bSlot{t: 'v'} // the manager is replaced by its __exit__
		st.blocks = append(st.blocks, bBlock{'F', h, depth()})
		v.unwind(pc, st, bSlot{t: 'w', why: whyExc}, false)
		pushv(1)
		next()
	case vm.LOAD_FAST:
		needFast()
		pushv(1)
		next()
	case vm.STORE_FAST:
		needFast()
		if pop(1) {
			next()
		}
	case vm.DELETE_FAST:
		needFast()
		next()
	case vm.CALL_FUNCTION, vm.CALL_FUNCTION_VAR, vm.CALL_FUNCTION_KW, vm.CALL_FUNCTION_VAR_KW:
		n := nargsOf(in.arg) + 1
		switch in.op {
		case vm.CALL_FUNCTION_VAR, vm.CALL_FUNCTION_KW:
			n++
		case vm.CALL_FUNCTION_VAR_KW:
			n += 2
		}
		if pop(n) {
			pushv(1)
			next()
		}
	case vm.MAKE_FUNCTION, vm.MAKE_CLOSURE:
		n := 2 + (in.arg & 0xff) + 2*((in.arg>>8)&0xff) + ((in.arg >> 16) & 0x7fff)
		if in.op == vm.MAKE_CLOSURE {
			n++
		}
		if pop(n) {
			pushv(1)
			next()
		}
	case vm.LOAD_CLOSURE, vm.LOAD_DEREF, vm.LOAD_CLASSDEREF:
		needCell()
		pushv(1)
		next()
	case vm.STORE_DEREF:
		needCell()
		if pop(1) {
			next()
		}
	case vm.DELETE_DEREF:
		needCell()
		next()
	case vm.LIST_APPEND, vm.SET_ADD:
		if pop(1) {
			if depth() < in.arg {
				v.errorf(pc, "%s refers to slot %d below the stack", in.op, in.arg)
			}
			next()
		}
	case vm.MAP_ADD:
		if pop(2) {
			if depth() < in.arg {
				v.errorf(pc, "MAP_ADD refers to slot %d below the stack", in.arg)
			}
			next()
		}
	default:
		v.errorf(pc, "opcode %d (%s) is not in the verified instruction set", int(in.op), in.op)
	}
}

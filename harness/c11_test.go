//go:build verif

package harness

// C11 — the compile pipeline is total: code object or SyntaxError, always (DESIGN section 6).

import (
	"fmt"
	"os"
	"path/filepath"
	"runtime/debug"
	"sort"
	"strings"
	"testing"
	"time"

	"github.com/go-python/gpython/py"
	"pgregory.net/rapid"
)

var c11Modes = []py.CompileMode{py.ExecMode, py.EvalMode, py.SingleMode}

// c11Judge compiles src and returns "" if the outcome is a code object or a well-formed
// SyntaxError-family exception; otherwise a signature.
func c11Judge(src string, mode py.CompileMode, timeout time.Duration) (sig, detail string, accepted bool) {
	type out struct {
		sig, detail string
		accepted    bool
	}
	ch := make(chan out, 1)
	go func() {
		var o out
		defer func() {
			if r := recover(); r != nil {
				o = out{"panic:" + panicTop(string(debug.Stack())) + ":" + panicClass(r), fmt.Sprint(r), false}
			}
			ch <- o
		}()
		code, err := py.Compile(src, "<c11>", mode, 0, true)
		if err == nil {
			if code == nil {
				o = out{"nil-code", "Compile returned (nil, nil)", false}
				return
			}
			o = out{"", "", true}
			return
		}
		var exc *py.Exception
		switch e := err.(type) {
		case *py.Exception:
			exc = e
		case py.ExceptionInfo:
			exc, _ = e.Value.(*py.Exception)
		case *py.ExceptionInfo:
			exc, _ = e.Value.(*py.Exception)
		}
		if exc == nil {
			cls, msg := ErrClass(err)
			o = out{"not-an-exception:" + cls, msg, false}
			return
		}
		if !exc.Type().IsSubtype(py.SyntaxError) {
			o = out{"exc:" + exc.Type().Name + ":" + c11MsgClass(exc.Error()), exc.Error(), false}
			return
		}
		for _, f := range []string{"filename", "lineno", "offset"} {
			if _, ok := exc.Dict[f]; !ok {
				o = out{"syntaxerror-without-" + f, exc.Error(), false}
				return
			}
		}
		o = out{"", "", false}
	}()
	select {
	case o := <-ch:
		return o.sig, o.detail, o.accepted
	case <-time.After(timeout):
		return "hang", "no result within the watchdog", false
	}
}

// c11MsgClass reduces an internal-error message to its constant part (no operands)
func c11MsgClass(msg string) string {
	// the message may be prefixed with file/line and the source line: keep what follows the class name
	if i := strings.LastIndex(msg, "Error"); i >= 0 {
		msg = msg[i+5:]
	}
	var sb strings.Builder
	for _, ch := range msg {
		switch {
		case ch >= 'a' && ch <= 'z' || ch >= 'A' && ch <= 'Z' || ch == ' ' || ch == '_' || ch == '.':
			sb.WriteRune(ch)
		}
		if sb.Len() >= 70 {
			break
		}
	}
	return strings.Join(strings.Fields(sb.String()), " ")
}

func c11Check(r *Run, src string, class string) bool {
	ok := true
	for _, mode := range c11Modes {
		sig, detail, accepted := c11Judge(src, mode, 5*time.Second)
		if sig == "hang" {
			// retry with long limits before believing it: a busy machine is not a hang
			sig, detail, accepted = c11Judge(src, mode, 60*time.Second)
			if sig == "hang" {
				sig, detail, accepted = c11Judge(src, mode, 300*time.Second)
			}
		}
		r.Count(string(mode)+":"+src, !accepted || len(strings.Fields(src)) >= 3)
		if accepted {
			r.Class("accepted")
		} else {
			r.Class("rejected")
		}
		if sig != "" {
			if !r.Mismatch(&Case{Kind: "c11", Sig: sig, Program: src, Mode: string(mode), Expected: "code object or SyntaxError with filename/lineno/offset", Actual: sig + ": " + detail, Detail: class}) {
				ok = false
			}
		}
	}
	return ok
}

var c11Alphabet = []string{
	// keywords
	"False", "None", "True", "and", "as", "assert", "break", "class", "continue", "def", "del", "elif", "else", "except", "finally", "for", "from", "global", "if", "import", "in", "is",
	"lambda", "nonlocal", "not", "or", "pass", "raise", "return", "try", "while", "with", "yield",
	// operators and delimiters
	"+", "-", "*", "**", "/", "//", "%", "@", "<<", ">>", "&", "|", "^", "~", "<", ">", "<=", ">=", "==", "!=", "<>", "(", ")", "[", "]", "{", "}", ",", ":", ".", ";", "=", "->",
	"+=", "-=", "*=", "/=", "//=", "%=", "&=", "|=", "^=", ">>=", "<<=", "**=", "...",
	// names and literals, well- and ill-formed
	"x", "y", "_", "\u00e9", "1", "0", "07", "0x", "0x1f", "0b2", "0o8", "1e", "1e5", "1.5", "1__0", "1j", "9999999999999999999999", "'a'", "\"b\"", "'\\x'", "'\\N{x}'", "'\\u12'",
	"b'\\xzz'", "b'a'", "'", "\"", "'''", "\"\"\"", "'''a'''", "r'\\'", "Rb'x'", "u'x'", "bu'x'", "'\\U00110000'",
	// layout and stray bytes
	"\n", "\n  ", "\n\t", "\n \t", "\n        ", "\\", "\\\n", "#c", "\r", "\f", "\x00", "\xff", "$", "?", "!", "`",
}

func c11RepoFiles() []string {
	var out []string
	root := "/repo"
	if alt := os.Getenv("VERIF_REPO"); alt != "" {
		root = alt
	}
	filepath.Walk(root, func(p string, info os.FileInfo, err error) error {
		if err == nil && !info.IsDir() && strings.HasSuffix(p, ".py") && info.Size() < 40000 {
			out = append(out, p)
		}
		return nil
	})
	sort.Strings(out)
	return out
}

func TestC11(t *testing.T) {
	r := StartRun(t, "C11")
	defer r.Finish()
	r.Extra("rule", fmt.Sprintf("token sequences over an alphabet of %d fragments (keywords, operators, well- and ill-formed literals, indentation, control bytes, non-ASCII): exhaustive for length <=2 "+
		"(thorough: a strided third of length 3) joined with and without spaces, rapid-drawn sequences of length 3-14; byte/token mutations (delete, duplicate, swap, truncate, insert hostile fragment) "+
		"of the repository's .py files; every placement of break/continue/return/yield/global/nonlocal/star-import inside nestings of block kinds up to depth 2 (thorough 3); structured programs from the scope-structure generator (nested functions/classes/lambdas/comprehensions with coinciding names, global/nonlocal, legal and illegal) and the statement generator, intact or with one hostile fragment inserted; size class (deep nesting, >64KiB functions); each in exec, eval and single mode. Oracle: Compile returns a code object, or an exception of the SyntaxError "+
		"family carrying filename, lineno and offset, within a watchdog (5 s, retried once with 60 s). Non-trivial: rejected, or accepted with >=3 tokens; distinct by (mode, text).", len(c11Alphabet)))
	r.Extra("assumptions", []string{"a hang is believed only after retries with 60 s and 300 s limits"})
	r.ReplayKnown()
	// exhaustive short sequences
	if r.Shard == 0 {
		for _, a := range c11Alphabet {
			c11Check(r, a, "len1")
			c11Check(r, a+"\n", "len1")
			for _, b := range c11Alphabet {
				c11Check(r, a+" "+b+"\n", "len2")
				c11Check(r, a+b, "len2")
			}
		}
		r.SetExhaustive(true)
		for _, tpl := range rejectTemplates {
			c11Check(r, tpl, "template")
			c11Check(r, "def f():\n"+Indent(tpl, 4), "template-in-function")
			c11Check(r, "for q in z:\n"+Indent(tpl, 4), "template-in-loop")
		}
		c11Sizes(r)
		c11Placements(r, r.Pick(2, 3))
	}
	if r.Thorough() {
		n := len(c11Alphabet)
		idx := 0
		for i := 0; i < n; i++ {
			for j := 0; j < n; j++ {
				for k := 0; k < n; k++ {
					idx++
					if idx%r.NShards != r.Shard || (idx/r.NShards)%3 != int(r.Seed)%3 {
						continue
					}
					c11Check(r, c11Alphabet[i]+" "+c11Alphabet[j]+" "+c11Alphabet[k]+"\n", "len3")
				}
			}
		}
	}
	files := c11RepoFiles()
	rapid.Check(t, func(rt *rapid.T) {
		g := &G{T: rt}
		var src, class string
		if g.Chance(1, 3) && len(files) > 0 {
			// mutate a repository file
			class = "mutation"
			b, err := os.ReadFile(files[g.N(len(files))])
			if err != nil {
				r.Infra("%v", err)
			}
			text := string(b)
			if len(text) > 3000 {
				start := g.N(len(text) - 3000)
				// cut at line boundaries
				if i := strings.Index(text[start:], "\n"); i >= 0 {
					start += i + 1
				}
				text = text[start:minInt(len(text), start+3000)]
			}
			nm := g.Int(1, 3)
			for m := 0; m < nm && len(text) > 2; m++ {
				p := g.N(len(text))
				q := minInt(len(text), p+g.Int(1, 12))
				switch g.N(6) {
				case 0:
					text = text[:p] + text[q:]
				case 1:
					text = text[:q] + text[p:q] + text[q:]
				case 2:
					text = text[:p]
				case 3:
					text = text[:p] + c11Alphabet[g.N(len(c11Alphabet))] + text[p:]
				case 4:
					text = text[:p] + strings.ToUpper(text[p:q]) + text[q:]
				default:
					text = text[:p] + " " + c11Alphabet[g.N(len(c11Alphabet))] + " " + text[q:]
				}
			}
			src = text
		} else if g.Chance(1, 3) {
			// structured programs: the scope-structure generator (C03) or the statement generator (C06), intact or with one hostile fragment inserted
			if g.Bool() {
				class = "structured-scopes"
				c := &c03Gen{g: g, r: r, kinds: map[string]bool{}, budget: 30}
				c.illegal = g.Chance(1, 3)
				msc := &c03Scope{kind: "module", depth: 1, fnBound: map[string]bool{}, declared: map[string]string{}}
				src = c.body(msc)
			} else {
				class = "structured-statements"
				c := &c06Gen{g: g, r: r, kinds: map[string]bool{}, nperturb: map[string]bool{}, budget: 40}
				var toks []string
				for i, n := 0, g.Int(1, 3); i < n; i++ {
					st, _ := c.stmtLine(3)
					toks = append(toks, st...)
				}
				src = c.render(toks, true)
			}
			if g.Chance(1, 3) && len(src) > 2 {
				p := g.N(len(src))
				src = src[:p] + " " + c11Alphabet[g.N(len(c11Alphabet))] + " " + src[p:]
				class += "-mutated"
			}
		} else {
			class = "random-seq"
			n := g.Int(3, 14)
			var sb strings.Builder
			for i := 0; i < n; i++ {
				sb.WriteString(c11Alphabet[g.N(len(c11Alphabet))])
				if g.Chance(3, 4) {
					sb.WriteByte(' ')
				}
			}
			if g.Bool() {
				sb.WriteByte('\n')
			}
			src = sb.String()
		}
		r.Class(class)
		r.Sample(src, src)
		if !c11Check(r, src, class) {
			rt.Fatalf("C11 violation")
		}
	})
}

// c11Placements: statements whose legality depends on where they stand (break, continue, return, yield, global, nonlocal, ...)
// inside every nesting of block kinds up to the given depth, with and without an enclosing loop or function
func c11Placements(r *Run, depth int) {
	wrappers := []string{
		"try:\n%s\nfinally:\n    pass\n",
		"try:\n    pass\nexcept E:\n%s\n",
		"try:\n    pass\nfinally:\n%s\n",
		"try:\n    pass\nexcept E:\n    pass\nelse:\n%s\n",
		"with a, b:\n%s\n",
		"if a:\n%s\nelse:\n    pass\n",
		"if a:\n    pass\nelse:\n%s\n",
		"for i in a:\n    pass\nelse:\n%s\n",
		"while a:\n    pass\nelse:\n%s\n",
		"class C:\n%s\n",
		"def f():\n%s\n",
		"for i in a:\n%s\n",
	}
	stmts := []string{"break", "continue", "return 1", "yield 1", "x = yield", "nonlocal q", "global q", "return", "import *", "from m import *", "yield from a", "del q", "lambda: (yield)", "q = [(yield) for z in a]"}
	var rec func(body string, d int)
	n := 0
	rec = func(body string, d int) {
		c11Check(r, body, "placement")
		n++
		if d == 0 {
			return
		}
		for _, w := range wrappers {
			rec(fmt.Sprintf(w, Indent(strings.TrimRight(body, "\n"), 4)), d-1)
		}
	}
	for _, st := range stmts {
		rec(st+"\n", depth)
	}
	r.AddExtra("placement_programs", int64(n))
}

// c11Sizes: deep nesting and very large functions
func c11Sizes(r *Run) {
	for _, depth := range []int{50, 100, 200, 400} {
		c11Check(r, strings.Repeat("(", depth)+"1"+strings.Repeat(")", depth)+"\n", "deep-parens")
		c11Check(r, strings.Repeat("[", depth)+strings.Repeat("]", depth)+"\n", "deep-brackets")
		c11Check(r, "x = "+strings.Repeat("-", depth)+"1\n", "deep-unary")
		c11Check(r, "x = 1"+strings.Repeat(" + 1", depth*10)+"\n", "long-binop")
		var sb strings.Builder
		for i := 0; i < depth && i < 100; i++ {
			sb.WriteString(strings.Repeat(" ", i) + "if x:\n")
		}
		sb.WriteString(strings.Repeat(" ", minInt(depth, 100)) + "pass\n")
		c11Check(r, sb.String(), "deep-blocks")
	}
	if !r.On("c11.size.jump64k") {
		return
	}
	// a function whose body exceeds 64 KiB of bytecode, with jumps across it
	for _, n := range []int{3000, 6000, 12000} {
		var sb strings.Builder
		sb.WriteString("def f(a):\n    for i in a:\n        if i:\n")
		for i := 0; i < n; i++ {
			fmt.Fprintf(&sb, "            a = a + %d\n", i)
		}
		sb.WriteString("        else:\n            break\n    return a\n")
		c11Check(r, sb.String(), "big-function")
		var sb2 strings.Builder
		sb2.WriteString("while x:\n    try:\n")
		for i := 0; i < n; i++ {
			fmt.Fprintf(&sb2, "        x = x - %d\n", i)
		}
		sb2.WriteString("    finally:\n        pass\n")
		c11Check(r, sb2.String(), "big-loop")
	}
}

func init() {
	replayers["c11"] = func(c *Case) (string, string, error) {
		sig, detail, _ := c11Judge(c.Program, py.CompileMode(c.Mode), 60*time.Second)
		return sig, detail, nil
	}
}

//go:build verif

package harness

// C20 — line-at-a-time interactive input is equivalent to running the statements (DESIGN section 6).

import (
	"fmt"
	"os"
	"strings"
	"sync"
	"testing"

	"github.com/go-python/gpython/py"
	"github.com/go-python/gpython/repl"
	"github.com/go-python/gpython/vm"
	"pgregory.net/rapid"
)

type c20UI struct {
	mu      sync.Mutex
	prompt  string
	prints  []string
	prompts []string
}

func (u *c20UI) SetPrompt(p string) {
	u.mu.Lock()
	u.prompt = p
	u.prompts = append(u.prompts, p)
	u.mu.Unlock()
}

func (u *c20UI) Print(s string) {
	u.mu.Lock()
	u.prints = append(u.prints, s)
	u.mu.Unlock()
}

type c20Stmt struct {
	lines      []string // physical lines
	multi      bool     // fed with a terminating blank line
	incomplete []bool   // incomplete[j]: after line j more input is needed to complete the statement
	kind       string
}

type c20Gen struct {
	g      *G
	id     int
	kinds  map[string]bool
	lastFn string // a function defined earlier in the session whose body has bare expression statements
}

func (c *c20Gen) nid() int { c.id++; return c.id }

func (c *c20Gen) stmt() c20Stmt {
	g := c.g
	id := c.nid()
	one := func(kind, line string) c20Stmt {
		c.kinds[kind] = true
		return c20Stmt{lines: []string{line}, incomplete: []bool{false}, kind: kind}
	}
	multi := func(kind string, lines []string, inc []bool) c20Stmt {
		c.kinds[kind] = true
		return c20Stmt{lines: lines, multi: true, incomplete: inc, kind: kind}
	}
	allBut := func(n int) []bool {
		inc := make([]bool, n)
		for i := 0; i < n-1; i++ {
			inc[i] = true
		}
		return inc
	}
	switch g.Weighted(4, 4, 3, 3, 2, 2, 2, 2, 2, 2, 2, 1, 1, 1) {
	case 0:
		return one("simple", fmt.Sprintf("log.append(%d)", id))
	case 1:
		return one("assign", g.Str(fmt.Sprintf("x = %d", id), fmt.Sprintf("a = b = %d", id), fmt.Sprintf("x = x + %d", id), fmt.Sprintf("a = %d; log.append(a)", id), "import math", "pass"))
	case 2:
		if c.lastFn != "" && g.Chance(1, 3) {
			c.kinds["call-of-session-function"] = true
			if g.Bool() {
				return one("echo", fmt.Sprintf("%s(%d)", c.lastFn, id))
			}
			return one("assign", fmt.Sprintf("x = %s(%d)", c.lastFn, id))
		}
		return one("echo", g.Str(fmt.Sprintf("%d + 1", id), "'ab'", "x", "[1, 2]", "(x, 'q')", "None", "_", "log", "x == x", fmt.Sprintf("log.append(%d)", id), "1.5", "{'k': 1}"))
	case 3:
		lines := []string{fmt.Sprintf("if x %% 2 == %d:", g.N(2)), fmt.Sprintf("    log.append(%d)", id)}
		if g.Bool() {
			lines = append(lines, "    # comment inside the block")
		}
		if g.Bool() {
			lines = append(lines, "else:", fmt.Sprintf("    log.append(-%d)", id))
		}
		inc := make([]bool, len(lines))
		inc[0] = true
		for i, l := range lines {
			if strings.HasSuffix(l, ":") {
				inc[i] = true
			}
		}
		return multi("if", lines, inc)
	case 4:
		lines := []string{"for i in range(2):", "    if i:", fmt.Sprintf("        log.append(%d + i)", id), "    x = x + 1"}
		return multi("for-nested", lines, []bool{true, true, false, false})
	case 5:
		lines := []string{fmt.Sprintf("def f%d(a, b=2):", id), "    c = a + b", "    return c"}
		if g.Chance(1, 3) {
			// bare expression statements inside a body never echo, however the function is called later
			c.kinds["def-with-expression-statements"] = true
			c.lastFn = fmt.Sprintf("g%d", id)
			return multi("def", []string{fmt.Sprintf("def g%d(a):", id), "    a", "    a + 1", "    'text'", fmt.Sprintf("    log.append(('g%d', a))", id), "    return a * 2"}, []bool{true, false, false, false, false, false})
		}
		if g.Bool() {
			lines = append([]string{"@deco"}, lines...)
			return multi("def-decorated", lines, []bool{true, true, false, false})
		}
		return multi("def", lines, []bool{true, false, false})
	case 6:
		lines := []string{fmt.Sprintf("x = [%d,", id), "     2,", "  x]"}
		if g.Bool() {
			lines = []string{fmt.Sprintf("log.append((%d,", id), "", "  3))"}
		}
		return multi("brackets", lines, allBut(3))
	case 7:
		lines := []string{fmt.Sprintf("s = '''%d", id), "", "b'''"}
		switch g.N(4) {
		case 1:
			// lines that would be comments, blank or indented code anywhere else are text inside the string
			lines = []string{fmt.Sprintf("s = '''%d", id), "# not a comment", "  # nor this", "", "    if x:", "b'''"}
			return multi("triple-quoted", lines, allBut(6))
		case 2:
			lines = []string{fmt.Sprintf("s = [\"\"\"%d", id), "#", "x = (", "\"\"\", 2,", "  # a real comment inside the brackets", "  3]"}
			return multi("triple-quoted", lines, allBut(6))
		}
		return multi("triple-quoted", lines, allBut(3))
	case 8:
		lines := []string{fmt.Sprintf("x = %d + \\", id), "    2"}
		if g.Chance(1, 3) {
			// a backslash-newline inside a single-quoted string joins the lines too
			lines = []string{fmt.Sprintf("s = 'a%d\\", id), "cd'"}
		}
		return multi("backslash", lines, allBut(2))
	case 9:
		return one("runtime-error", g.Str("1 // 0", "undefined_name", "[][1]", "log.append(1 // 0)", "int('z')"))
	case 10:
		if g.Bool() {
			return one("syntax-error", g.Str("x = = 1", "def f(:", "1 +* 2", "x = )", "for in y: pass"))
		}
		lines := []string{"if x:", "    y = = 2"}
		return multi("syntax-error-in-block", lines, []bool{true, false})
	case 11:
		lines := []string{"try:", fmt.Sprintf("    log.append(%d)", id), "    1 // 0", "except ZeroDivisionError:", fmt.Sprintf("    log.append(-%d)", id), "finally:", "    x = x + 100"}
		return multi("try", lines, []bool{true, false, false, true, false, true, false})
	case 12:
		lines := []string{fmt.Sprintf("class K%d:", id), "    v = 1", "    def m(self):", "        return self.v", fmt.Sprintf("log.append(K%d().m())", id)}
		if g.Bool() {
			lines = []string{fmt.Sprintf("class K%d:", id), "    v = 1", "    v + 1", "    def m(self):", "        self.v", "        return self.v", ""}
			return multi("class", lines[:6], []bool{true, false, false, true, false, false})
		}
		// the last line is a separate statement: split below
		st := multi("class", lines[:4], []bool{true, false, true, false})
		return st
	default:
		// lines without any statement: a comment, an indented comment, white space only - the primary prompt stays
		return one("comment", g.Str("# just a comment", "# just a comment", "   # an indented comment", "   ", "\t", " "))
	}
}

const c20Prelude = "log = []\nx = 0\ndef deco(f):\n    return f\n"

var c20Names = []string{"log", "x", "a", "b", "_", "s", "y"}

func c20Globals(g py.StringDict) string {
	var parts []string
	for _, n := range c20Names {
		if o, ok := g[n]; ok {
			parts = append(parts, n+"="+Enc(o))
		}
	}
	return strings.Join(parts, ";")
}

func normPrint(s string) string {
	if strings.HasPrefix(s, "Compile error") {
		return "Compile error"
	}
	return s
}

type c20Outcome struct {
	globals string
	stdout  string
	prints  []string
}

// the REPL side: feed every physical line, then a blank line after each multi-line statement
func c20RunREPL(stmts []c20Stmt) (c20Outcome, string) {
	ctx, w := NewCtx(nil, nil)
	defer ctx.Close()
	rp := repl.New(ctx)
	ui := &c20UI{}
	rp.SetUI(ui)
	for _, l := range strings.Split(strings.TrimSpace(c20Prelude), "\n") {
		rp.Run(l)
		if strings.HasPrefix(l, "    ") {
			continue
		}
	}
	rp.Run("")
	ui.prints = nil
	promptErr := ""
	for si, st := range stmts {
		for j, l := range st.lines {
			rp.Run(l)
			if st.incomplete[j] && ui.prompt != repl.ContinuationPrompt && promptErr == "" {
				promptErr = fmt.Sprintf("statement %d (%s): after line %d (%q) more input is needed but the prompt is %q", si, st.kind, j, l, ui.prompt)
			}
			if !st.multi && ui.prompt != repl.NormalPrompt && promptErr == "" {
				promptErr = fmt.Sprintf("statement %d (%s): after the complete one-line statement %q the prompt is %q", si, st.kind, l, ui.prompt)
			}
		}
		if st.multi {
			rp.Run("")
			if ui.prompt != repl.NormalPrompt && promptErr == "" {
				promptErr = fmt.Sprintf("statement %d (%s): after the terminating blank line the prompt is %q", si, st.kind, ui.prompt)
			}
		}
	}
	var prints []string
	for _, p := range ui.prints {
		prints = append(prints, normPrint(p))
	}
	return c20Outcome{c20Globals(rp.Module.Globals), w.String(), prints}, promptErr
}

// the reference side: every statement compiled as a whole in single mode and run, one by one
func c20RunReference(stmts []c20Stmt) c20Outcome {
	ctx, w := NewCtx(nil, nil)
	defer ctx.Close()
	mod, _ := ctx.ModuleInit(&py.ModuleImpl{Info: py.ModuleInfo{FileDesc: "<stdin>"}})
	var prints []string
	old := vm.PrintExpr
	vm.PrintExpr = func(s string) { prints = append(prints, s) }
	defer func() { vm.PrintExpr = old }()
	run := func(src string) {
		code, err := py.Compile(src+"\n", "<stdin>", py.SingleMode, 0, true)
		if err != nil {
			prints = append(prints, "Compile error")
			return
		}
		ctx.RunCode(code, mod.Globals, mod.Globals, nil)
	}
	pre, _ := py.Compile(c20Prelude, "<stdin>", py.ExecMode, 0, true)
	ctx.RunCode(pre, mod.Globals, mod.Globals, nil)
	prints = nil
	for _, st := range stmts {
		if st.kind == "comment" {
			continue
		}
		run(strings.Join(st.lines, "\n"))
	}
	return c20Outcome{c20Globals(mod.Globals), w.String(), prints}
}

// the file side: the same statements run as a program (exec mode, statement by statement); only a top-level
// expression statement echoes: its value is taken in eval mode. Nothing here uses single-mode compilation.
func c20RunFile(stmts []c20Stmt) c20Outcome {
	ctx, w := NewCtx(nil, nil)
	defer ctx.Close()
	mod, _ := ctx.ModuleInit(&py.ModuleImpl{Info: py.ModuleInfo{FileDesc: "<stdin>"}})
	var prints []string
	old := vm.PrintExpr
	vm.PrintExpr = func(s string) { prints = append(prints, "UNEXPECTED-ECHO:"+s) }
	defer func() { vm.PrintExpr = old }()
	pre, _ := py.Compile(c20Prelude, "<stdin>", py.ExecMode, 0, true)
	ctx.RunCode(pre, mod.Globals, mod.Globals, nil)
	for _, st := range stmts {
		if st.kind == "comment" {
			continue
		}
		src := strings.Join(st.lines, "\n") + "\n"
		// an expression statement is what compiles in eval mode
		if code, err := py.Compile(strings.TrimSpace(src), "<stdin>", py.EvalMode, 0, true); err == nil {
			val, err := ctx.RunCode(code, mod.Globals, mod.Globals, nil)
			if err != nil || val == nil {
				continue
			}
			if val != py.None {
				if rs, err := py.Repr(val); err == nil {
					prints = append(prints, fmt.Sprint(rs))
				}
				mod.Globals["_"] = val // a None value is not echoed and leaves _ alone
			}
			continue
		}
		code, err := py.Compile(src, "<stdin>", py.ExecMode, 0, true)
		if err != nil {
			prints = append(prints, "Compile error")
			continue
		}
		ctx.RunCode(code, mod.Globals, mod.Globals, nil)
	}
	return c20Outcome{c20Globals(mod.Globals), w.String(), prints}
}

func TestC20(t *testing.T) {
	r := StartRun(t, "C20")
	defer r.Finish()
	r.Extra("rule", "rapid-drawn sessions of 1-8 top-level statements (simple statements, echoing expressions incl. None, ;-joined statements, if/else, nested for/if, def, decorated def, class, "+
		"try/except/finally, multi-line brackets with blank lines inside, triple-quoted strings containing blank lines, backslash continuation, comment lines between statements and inside "+
		"blocks, statements raising at run time, syntax errors on the first and on a later line) fed to repl.REPL one physical line at a time with a blank line after each multi-line "+
		"statement; oracle: the same statements compiled as a whole in single mode and run one by one in a fresh context - session globals, captured stdout and the echo sequence must be equal - "+
		"and against the statements run as a program: exec mode statement by statement, where only top-level expression statements echo (value taken in eval mode) - "+
		"plus the prompt model (continuation prompt whenever the statement is incomplete, normal prompt once everything entered has been executed). Non-trivial: a multi-line statement with a "+
		"nested block or open bracket/string and an error statement or echo; distinct by session text.")
	r.Extra("assumptions", []string{"the reference side uses gpython's own single-mode compilation: the property is an equivalence between two ways of driving gpython"})
	r.ReplayKnown()
	// runtime errors are dumped to the process's stderr by the REPL: silence it
	devnull, _ := os.OpenFile(os.DevNull, os.O_WRONLY, 0)
	oldErr := os.Stderr
	if devnull != nil {
		os.Stderr = devnull
		defer func() { os.Stderr = oldErr }()
	}
	rapid.Check(t, func(rt *rapid.T) {
		c := &c20Gen{g: &G{T: rt}, kinds: map[string]bool{}}
		n := c.g.Int(1, 8)
		var stmts []c20Stmt
		for i := 0; i < n; i++ {
			stmts = append(stmts, c.stmt())
		}
		var text strings.Builder
		hasMulti, hasErrOrEcho := false, false
		for _, st := range stmts {
			text.WriteString(strings.Join(st.lines, "\n") + "\n")
			if st.multi {
				text.WriteString("\n")
				if st.kind != "backslash" {
					hasMulti = true
				}
			}
			if strings.Contains(st.kind, "error") || st.kind == "echo" {
				hasErrOrEcho = true
			}
		}
		session := text.String()
		r.Count(session, hasMulti && hasErrOrEcho)
		for k := range c.kinds {
			r.Class(k)
		}
		r.Sample(session, session)
		got, promptErr := c20RunREPL(stmts)
		want := c20RunReference(stmts)
		fail := func(sig, exp, act, detail string) {
			var lines [][]string
			var multi []bool
			var inc [][]bool
			var kinds []string
			for _, st := range stmts {
				lines = append(lines, st.lines)
				multi = append(multi, st.multi)
				inc = append(inc, st.incomplete)
				kinds = append(kinds, st.kind)
			}
			if !r.Mismatch(&Case{Kind: "c20", Sig: sig, Program: session, Args: map[string]interface{}{"lines": lines, "multi": multi, "incomplete": inc, "kinds": kinds}, Expected: exp, Actual: act, Detail: detail}) {
				rt.Fatalf("C20 mismatch %s", sig)
			}
		}
		switch {
		case promptErr != "":
			fail("prompt", "prompt model", promptErr, "")
		case got.globals != want.globals:
			fail("globals", want.globals, got.globals, "session namespace differs from running the statements one by one")
		case fmt.Sprint(got.prints) != fmt.Sprint(want.prints):
			fail("echo", fmt.Sprint(want.prints), fmt.Sprint(got.prints), "echo / error report sequence differs")
		case got.stdout != want.stdout:
			fail("stdout", want.stdout, got.stdout, "captured stdout differs")
		default:
			file := c20RunFile(stmts)
			switch {
			case got.globals != file.globals:
				fail("file:globals", file.globals, got.globals, "session namespace differs from running the statements as a program")
			case fmt.Sprint(got.prints) != fmt.Sprint(file.prints):
				fail("file:echo", fmt.Sprint(file.prints), fmt.Sprint(got.prints), "only top-level expression statements echo: sequence differs from the values of those expressions")
			case got.stdout != file.stdout:
				fail("file:stdout", file.stdout, got.stdout, "captured stdout differs from the program run")
			}
		}
	})
}

func init() {
	replayers["c20"] = func(c *Case) (string, string, error) {
		var stmts []c20Stmt
		lines, _ := c.Args["lines"].([]interface{})
		multi, _ := c.Args["multi"].([]interface{})
		inc, _ := c.Args["incomplete"].([]interface{})
		kinds, _ := c.Args["kinds"].([]interface{})
		for i := range lines {
			var st c20Stmt
			for _, l := range lines[i].([]interface{}) {
				st.lines = append(st.lines, l.(string))
			}
			st.multi, _ = multi[i].(bool)
			for _, b := range inc[i].([]interface{}) {
				st.incomplete = append(st.incomplete, b.(bool))
			}
			st.kind, _ = kinds[i].(string)
			stmts = append(stmts, st)
		}
		devnull, _ := os.OpenFile(os.DevNull, os.O_WRONLY, 0)
		oldErr := os.Stderr
		if devnull != nil {
			os.Stderr = devnull
			defer func() { os.Stderr = oldErr }()
		}
		got, promptErr := c20RunREPL(stmts)
		want := c20RunReference(stmts)
		switch {
		case promptErr != "":
			return "prompt", promptErr, nil
		case got.globals != want.globals:
			return "globals", "expected " + want.globals + " actual " + got.globals, nil
		case fmt.Sprint(got.prints) != fmt.Sprint(want.prints):
			return "echo", fmt.Sprint(want.prints) + " vs " + fmt.Sprint(got.prints), nil
		case got.stdout != want.stdout:
			return "stdout", want.stdout + " vs " + got.stdout, nil
		}
		file := c20RunFile(stmts)
		switch {
		case got.globals != file.globals:
			return "file:globals", "expected " + file.globals + " actual " + got.globals, nil
		case fmt.Sprint(got.prints) != fmt.Sprint(file.prints):
			return "file:echo", fmt.Sprint(file.prints) + " vs " + fmt.Sprint(got.prints), nil
		case got.stdout != file.stdout:
			return "file:stdout", file.stdout + " vs " + got.stdout, nil
		}
		return "", "", nil
	}
}

//go:build verif

package harness

// C03 — names resolve per lexical scoping (DESIGN section 6).

import (
	"fmt"
	"strings"
	"testing"

	"github.com/go-python/gpython/py"
	"pgregory.net/rapid"
)

type c03Gen struct {
	g       *G
	r       *Run
	id      int
	kinds   map[string]bool
	scopes  int
	illegal bool // may place declarations where the language forbids them
	budget  int
}

type c03Scope struct {
	kind     string // module, function, class
	depth    int
	fnBound  map[string]bool // names bound in some enclosing *function* scope (nonlocal is legal for them)
	declared map[string]string
}

var c03Names = []string{"a", "b", "c"}

func (c *c03Gen) nid() int { c.id++; return c.id }

func (c *c03Gen) use(name string) string {
	id := c.nid()
	return fmt.Sprintf("try:\n    _log.append((%d, %s))\nexcept UnboundLocalError:\n    _log.append((%d, 'ULE'))\nexcept NameError:\n    _log.append((%d, 'NE'))\n", id, name, id, id)
}

func (c *c03Gen) name() string { return c03Names[c.g.N(len(c03Names))] }

// body generates the statements of a module/function/class scope.
func (c *c03Gen) body(sc *c03Scope) string {
	g := c.g
	var sb strings.Builder
	// names assigned in this function scope are visible to nested nonlocal declarations
	inner := &c03Scope{depth: sc.depth + 1, fnBound: map[string]bool{}}
	for k, v := range sc.fnBound {
		inner.fnBound[k] = v
	}
	n := g.Int(2, 6)
	var deferred []string
	// declarations first (legal position)
	if sc.kind == "function" || (sc.kind == "class" && g.Chance(1, 4)) {
		for _, nm := range c03Names {
			switch g.Weighted(6, 2, 2) {
			case 1:
				c.kinds["global"] = true
				sb.WriteString("global " + nm + "\n")
				sc.declared[nm] = "global"
			case 2:
				if sc.fnBound[nm] || c.illegal && g.Chance(1, 6) {
					c.kinds["nonlocal"] = true
					sb.WriteString("nonlocal " + nm + "\n")
					sc.declared[nm] = "nonlocal"
				}
			}
		}
	}
	for i := 0; i < n && c.budget > 0; i++ {
		c.budget--
		w := []int{5, 6, 1, 3, 2, 2, 2, 1, 1, 1, 1, 2}
		if sc.depth >= 3 {
			w[3], w[4] = 0, 0
		}
		switch g.Weighted(w...) {
		case 0:
			nm := c.name()
			fmt.Fprintf(&sb, "%s = %d\n", nm, c.nid())
			if sc.kind == "function" && sc.declared[nm] == "" {
				inner.fnBound[nm] = true
			}
		case 1:
			sb.WriteString(c.use(c.name()))
		case 2:
			c.kinds["del"] = true
			nm := c.name()
			id := c.nid()
			fmt.Fprintf(&sb, "try:\n    del %s\nexcept UnboundLocalError:\n    _log.append((%d, 'ULE'))\nexcept NameError:\n    _log.append((%d, 'NE'))\n", nm, id, id)
			if sc.kind == "function" && sc.declared[nm] == "" {
				inner.fnBound[nm] = true
			}
		case 3: // nested function
			c.kinds["def"] = true
			c.scopes++
			fn := fmt.Sprintf("f%d", c.nid())
			params := ""
			fsc := &c03Scope{kind: "function", depth: sc.depth + 1, fnBound: map[string]bool{}, declared: map[string]string{}}
			for k, v := range inner.fnBound {
				fsc.fnBound[k] = v
			}
			if g.Chance(1, 3) {
				p := c.name()
				c.kinds["param"] = true
				if g.Bool() {
					// default evaluated once at definition time in the enclosing scope
					c.kinds["default"] = true
					params = p + "=" + c.name()
					sb.WriteString("try:\n") // the default may be unbound: definition wrapped
					body := c.fnBody(fsc, p)
					sb.WriteString(Indent("def "+fn+"("+params+"):\n"+Indent(body, 4), 4))
					id := c.nid()
					fmt.Fprintf(&sb, "except UnboundLocalError:\n    _log.append((%d, 'ULE'))\n    %s = len\nexcept NameError:\n    _log.append((%d, 'NE'))\n    %s = len\n", id, fn, id, fn)
					call := fmt.Sprintf("try:\n    %s()\nexcept TypeError:\n    _log.append('len')\n", fn)
					sb.WriteString(call)
					deferred = append(deferred, call)
					continue
				}
				params = p
				callArgs := fmt.Sprint(c.nid())
				switch g.N(4) {
				case 1: // keyword-only parameter (captured by inner scopes like any other local)
					c.kinds["param-kwonly"] = true
					params = "*, " + p + "=" + fmt.Sprint(c.nid())
					callArgs = p + "=" + callArgs
				case 2: // *args parameter
					c.kinds["param-varargs"] = true
					params = "*" + p
				case 3: // a mix: positional, *args and a keyword-only parameter after it
					c.kinds["param-kwonly"] = true
					params = "z0, *z1, " + p + "=" + fmt.Sprint(c.nid()) + ", **z2"
					callArgs = callArgs + ", 7, " + p + "=" + fmt.Sprint(c.nid())
				}
				body := c.fnBody(fsc, p)
				sb.WriteString("def " + fn + "(" + params + "):\n" + Indent(body, 4))
				call := fmt.Sprintf("%s(%s)\n", fn, callArgs)
				if g.Bool() {
					sb.WriteString(call)
				}
				deferred = append(deferred, call)
				continue
			}
			body := c.fnBody(fsc, "")
			sb.WriteString("def " + fn + "():\n" + Indent(body, 4))
			call := fn + "()\n"
			if g.Bool() {
				sb.WriteString(call)
			}
			deferred = append(deferred, call)
		case 4: // class scope
			c.kinds["class"] = true
			c.scopes++
			cn := fmt.Sprintf("C%d", c.nid())
			csc := &c03Scope{kind: "class", depth: sc.depth + 1, fnBound: map[string]bool{}, declared: map[string]string{}}
			for k, v := range inner.fnBound {
				csc.fnBound[k] = v
			}
			body := c.body(csc)
			// a method: the class body's names are invisible to it
			msc := &c03Scope{kind: "function", depth: sc.depth + 2, fnBound: map[string]bool{}, declared: map[string]string{}}
			for k, v := range inner.fnBound {
				msc.fnBound[k] = v
			}
			c.scopes++
			mbody := c.fnBody(msc, "self")
			sb.WriteString("class " + cn + ":\n" + Indent(body+"def m(self):\n"+Indent(mbody, 4), 4))
			call := cn + "().m()\n"
			sb.WriteString(call)
			if g.Bool() {
				deferred = append(deferred, call)
			}
		case 5: // lambda
			c.kinds["lambda"] = true
			c.scopes++
			nm := c.name()
			id := c.nid()
			expr := "(lambda: " + nm + ")()"
			if g.Chance(1, 3) {
				expr = "(lambda " + nm + "=" + nm + ": " + nm + ")()"
			} else if g.Chance(1, 3) {
				expr = "(lambda: (lambda: " + nm + ")())()"
				c.scopes++
			}
			fmt.Fprintf(&sb, "try:\n    _log.append((%d, %s))\nexcept UnboundLocalError:\n    _log.append((%d, 'ULE'))\nexcept NameError:\n    _log.append((%d, 'NE'))\n", id, expr, id, id)
		case 6: // comprehension scope
			c.kinds["comprehension"] = true
			c.scopes++
			nm := c.name()
			id := c.nid()
			var expr string
			switch g.N(4) {
			case 0:
				expr = "[" + nm + " for q in range(2)]"
			case 1:
				expr = "[" + nm + " for " + nm + " in range(2)]" // the loop variable must not leak
			case 2:
				expr = "list(" + nm + " + q for q in range(2))"
			default:
				expr = "[[" + nm + " for q in range(1)] for r in range(2)]"
				c.scopes++
			}
			fmt.Fprintf(&sb, "try:\n    _log.append((%d, %s))\nexcept UnboundLocalError:\n    _log.append((%d, 'ULE'))\nexcept NameError:\n    _log.append((%d, 'NE'))\nexcept TypeError:\n    _log.append((%d, 'TE'))\n", id, expr, id, id, id)
			sb.WriteString(c.use("q"))
		case 7: // for target binds
			c.kinds["for-target"] = true
			nm := c.name()
			fmt.Fprintf(&sb, "for %s in range(%d, %d):\n    pass\n", nm, 900+c.id, 902+c.id)
			if sc.kind == "function" && sc.declared[nm] == "" {
				inner.fnBound[nm] = true
			}
		case 8: // except ... as binds and unbinds
			c.kinds["except-as"] = true
			nm := c.name()
			fmt.Fprintf(&sb, "try:\n    1 // 0\nexcept ZeroDivisionError as %s:\n    pass\n", nm)
			if sc.kind == "function" && sc.declared[nm] == "" {
				inner.fnBound[nm] = true
			}
		case 9: // builtin layer
			c.kinds["builtin"] = true
			id := c.nid()
			if g.Bool() && sc.kind != "class" {
				fmt.Fprintf(&sb, "len = lambda x: %d\n", c.nid())
			}
			fmt.Fprintf(&sb, "_log.append((%d, len([1, 2])))\n", id)
		case 11: // an import statement binds a name: the first component of a dotted name, or the name after "as"
			c.kinds["import-binds"] = true
			nm := c.name()
			switch g.N(4) {
			case 0:
				fmt.Fprintf(&sb, "import math as %s\n", nm)
			case 1:
				fmt.Fprintf(&sb, "try:\n    import %s.sub.leaf\nexcept ImportError:\n    pass\n", nm)
			case 2:
				fmt.Fprintf(&sb, "try:\n    import %s.sub\nexcept ImportError:\n    pass\n", nm)
			default:
				fmt.Fprintf(&sb, "from math import pi as %s\n", nm)
			}
			if sc.kind == "function" && sc.declared[nm] == "" {
				inner.fnBound[nm] = true
			}
		case 10: // misplaced declaration (only in the illegal-declaration mode)
			if c.illegal && sc.kind != "module" || c.illegal && g.Chance(1, 2) {
				c.kinds["misplaced-decl"] = true
				sb.WriteString(g.Str("global ", "nonlocal ") + c.name() + "\n")
			} else {
				sb.WriteString(c.use(c.name()))
			}
		}
	}
	for _, d := range deferred {
		sb.WriteString(d)
	}
	if sb.Len() == 0 {
		return "pass\n"
	}
	return sb.String()
}

func (c *c03Gen) fnBody(sc *c03Scope, param string) string {
	if param != "" && param != "self" {
		// a parameter is a binding of this function scope
		sc.fnBound[param] = true
		if c.illegal && c.g.Chance(1, 5) {
			c.kinds["param-decl"] = true
			return c.g.Str("global ", "nonlocal ") + param + "\n" + c.body(sc)
		}
	}
	b := c.body(sc)
	if param != "" && param != "self" {
		b = c.use(param) + b
	}
	return b
}

const c03Prelude = "_log = []\n"

var c03Vars = []string{"_log"}

// fixed closure templates: cells shared between closures, late rebinding, class-body invisibility, LOAD_CLASSDEREF
var c03Templates = []string{
	"def mk():\n    a = 1\n    def get():\n        return a\n    def put(v):\n        nonlocal a\n        a = v\n    return get, put\ng, p = mk()\n_log.append(g())\np(5)\n_log.append(g())\ng2, p2 = mk()\np2(7)\n_log.append((g(), g2()))\n",
	"def mk():\n    fs = []\n    for i in range(3):\n        fs.append(lambda: i)\n    return fs\n_log.append([f() for f in mk()])\n",
	"def mk():\n    fs = []\n    for i in range(3):\n        fs.append(lambda i=i: i)\n    return fs\n_log.append([f() for f in mk()])\n",
	"a = 1\nclass C:\n    a = 2\n    def m(self):\n        return a\n    b = a\n_log.append((C().m(), C.b))\n",
	"def f():\n    a = 1\n    class C:\n        _log.append(a)\n        a = 2\n        _log.append(a)\n        def m(self):\n            return a\n    return C().m()\n_log.append(f())\n",
	"def f():\n    a = 1\n    class C:\n        b = a\n    a = 3\n    return C.b\n_log.append(f())\n",
	"a = 1\ndef f():\n    a = 2\n    def g():\n        global a\n        return a\n    return g()\n_log.append(f())\n",
	"def f(x, d=[]):\n    d.append(x)\n    return len(d)\n_log.append((f(1), f(2), f(3)))\n",
	"n = 5\ndef f(d=n):\n    return d\nn = 6\n_log.append(f())\n",
	"def f():\n    a = 1\n    def g():\n        def h():\n            return a\n        return h()\n    a = 2\n    return g()\n_log.append(f())\n",
	"def f():\n    x = [i for i in range(3)]\n    try:\n        return i\n    except NameError:\n        return 'NE'\n_log.append(f())\n",
	"def f():\n    a = 1\n    def g():\n        nonlocal a\n        a = a + 1\n        return a\n    return g() + g() + a\n_log.append(f())\n",
	"def f():\n    try:\n        return a\n    except UnboundLocalError:\n        return 'ULE'\n    except NameError:\n        return 'NE'\n    a = 1\n_log.append(f())\n",
	"a = 1\ndef f():\n    global a\n    a = 2\n    del a\n    try:\n        return a\n    except NameError:\n        return 'NE'\n_log.append(f())\n",
	"def f():\n    a = 1\n    del a\n    try:\n        return a\n    except UnboundLocalError:\n        return 'ULE'\n    except NameError:\n        return 'NE'\n_log.append(f())\n",
	"def f():\n    a = 1\n    def g():\n        return a\n    del a\n    try:\n        return g()\n    except NameError:\n        return 'NE'\n_log.append(f())\n",
	"class A:\n    x = 1\n    y = [x for q in range(2)]\n_log.append(A.y)\n",
	// parameters of every kind captured by inner scopes (cell variables that are arguments)
	"def f(p, d=2, *va, k=3, **kw):\n    def g():\n        return (p, d, va, k, sorted(kw.keys()))\n    return g()\n_log.append(f(1))\n_log.append(f(1, 5, 6, 7, k=8, z=9))\n",
	"def f2(*, k=1, m=2):\n    return [(k, m) for q in range(1)]\n_log.append(f2())\n_log.append(f2(m=5))\n",
	"def f3(*va, k=4):\n    class C:\n        def m(self):\n            return (va, k)\n    return C().m()\n_log.append(f3())\n_log.append(f3(1, 2, k=9))\n",
	"def f4(a, *, k=3):\n    return (lambda: (a, k))()\n_log.append(f4(1))\n_log.append(f4(1, k=2))\n",
	"def f5(a, **kw):\n    return (lambda: (a, sorted(kw.keys())))()\n_log.append(f5(1, x=2))\n",
	"def f6(a, b, *c, d=1):\n    def g():\n        return d\n    def h():\n        return (b, c)\n    return (g(), h(), a)\n_log.append(f6(1, 2, 3))\n",
	"def f7(self, *, key=None, reverse=False):\n    return sorted([3, 1, 2], key=lambda v: (key or 1) * v, reverse=reverse)\n_log.append(f7(0))\n_log.append(f7(0, key=-1))\n",
	"x = 10\nclass A:\n    x = 1\n    try:\n        y = [x for q in range(2)]\n    except NameError:\n        y = 'NE'\n_log.append(A.y)\n",
}

// declarations the language forbids, and legal near-misses
var c03Forbidden = []string{
	"def f():\n    nonlocal a\n", "nonlocal a\n", "a = 1\ndef f():\n    nonlocal a\n",
	"def f(a):\n    global a\n", "def f(a):\n    nonlocal a\n",
	"def f():\n    a = 1\n    global a\n", "def f():\n    _log.append(a)\n    global a\n",
	"def f():\n    a = 1\n    def g():\n        a = 2\n        nonlocal a\n", "def f():\n    a = 1\n    def g():\n        _log.append(a)\n        nonlocal a\n",
	"def f(a, a):\n    pass\n", "def f(a, b=1, a=2):\n    pass\n", "def f(a, *a):\n    pass\n", "def f(a, **a):\n    pass\n", "def f(*, a, a):\n    pass\n", "lambda a, a: 0\n",
	"def f():\n    from math import *\n",
	"def f():\n    a = 1\n    def g():\n        global a\n        nonlocal a\n",
	"class C:\n    nonlocal a\n", "def f():\n    a = 1\n    class C:\n        nonlocal a\n        a = 2\n    return a\n_log.append(f())\n",
	"def f():\n    global a\n    a = 3\nf()\n_log.append(a)\n", "def f():\n    a = 1\n    def g():\n        nonlocal a\n        a = 2\n    g()\n    return a\n_log.append(f())\n",
	"def f():\n    def g():\n        nonlocal a\n    a = 1\n",
	"def f():\n    return\n    nonlocal a\n",
	"a = 1\nglobal a\n", "_log.append(1)\nglobal _log\n",
	"def f():\n    for a in range(2):\n        pass\n    global a\n",
	"def f():\n    import math as a\n    global a\n",
	"def f():\n    class a:\n        pass\n    global a\n",
	"def f():\n    def a():\n        pass\n    global a\n",
	"def f():\n    a += 1\n    global a\n",
	"def f():\n    del a\n    global a\n",
	"def f():\n    with a as b:\n        pass\n    global b\n",
}

func TestC03(t *testing.T) {
	r := StartRun(t, "C03")
	defer r.Finish()
	r.Extra("rule", "random scope trees (module/function/lambda/class/comprehension, depth<=4) over names a,b,c and builtin len with bind/use/del/global/nonlocal/"+
		"parameter/default/for-target/except-as events, each use logging the value seen or NameError/UnboundLocalError; closure-sharing templates; forbidden-declaration "+
		"templates and randomly misplaced declarations. Oracles: CPython (use log, compile-time SyntaxError verdict) and order-independence: every program compiled "+
		"repeatedly, canonical code dumps must be identical. Non-trivial: >=2 nested function-like scopes, or a global/nonlocal/del, or a class scope; distinct by program text.")
	r.Extra("assumptions", []string{"CPython 3.6 scoping equals 3.4's, except that use-before-global is an error (3.6) as the property demands rather than a warning (3.4)"})
	r.ReplayKnown()
	if _, err := GetOracle(); err != nil {
		r.Infra("%v", err)
	}
	ncompile := r.Pick(16, 64)
	check := func(prog string, nt bool, tag string, fail func(string)) {
		d, err := PyDiff(prog, PyDiffOpts{Vars: c03Vars})
		if err != nil {
			r.Infra("%v", err)
		}
		r.Count(prog, nt)
		if d.Sig != "" {
			if !r.Mismatch(&Case{Kind: "pydiff", Sig: tag + d.Sig, Program: prog, Vars: c03Vars, Expected: d.Expected, Actual: d.Actual, Detail: d.Detail}) {
				fail(d.Sig)
			}
			return
		}
		// order independence: repeated compilation must give identical code
		first := ""
		for i := 0; i < ncompile; i++ {
			code, err := py.Compile(prog, "<case>", py.ExecMode, 0, true)
			dump := ""
			if err != nil {
				cls, _ := ErrClass(err)
				dump = "error:" + cls
			} else {
				dump = DumpCode(code)
			}
			if i == 0 {
				first = dump
			} else if dump != first {
				if !r.Mismatch(&Case{Kind: "c03order", Sig: tag + "order-dependence", Program: prog, Expected: first, Actual: dump, Detail: fmt.Sprintf("compilation %d differs from compilation 0", i)}) {
					fail("order-dependence")
				}
				return
			}
		}
		r.AddExtra("compilations", int64(ncompile))
	}
	if r.Shard == 0 {
		for _, tpl := range c03Templates {
			r.Class("template")
			check(c03Prelude+tpl, true, "tpl:", func(string) {})
		}
		for _, tpl := range c03Forbidden {
			r.Class("forbidden-template")
			check(c03Prelude+tpl, true, "forbid:", func(string) {})
		}
	}
	rapid.Check(t, func(rt *rapid.T) {
		c := &c03Gen{g: &G{T: rt}, r: r, kinds: map[string]bool{}, budget: 30}
		c.illegal = c.g.Chance(1, 5)
		msc := &c03Scope{kind: "module", depth: 1, fnBound: map[string]bool{}, declared: map[string]string{}}
		body := c.body(msc)
		prog := c03Prelude + body
		nt := c.scopes >= 2 || c.kinds["global"] || c.kinds["nonlocal"] || c.kinds["del"] || c.kinds["class"]
		for k := range c.kinds {
			r.Class(k)
		}
		if c.illegal {
			r.Class("illegal-mode")
		}
		r.Sample(body, body)
		tag := ""
		if c.illegal {
			tag = "illegal:"
		}
		check(prog, nt, tag, func(sig string) { rt.Fatalf("C03 mismatch %s", sig) })
	})
}

func init() {
	replayers["c03order"] = func(c *Case) (string, string, error) {
		first := ""
		for i := 0; i < 200; i++ {
			code, err := py.Compile(c.Program, "<case>", py.ExecMode, 0, true)
			dump := ""
			if err != nil {
				cls, _ := ErrClass(err)
				dump = "error:" + cls
			} else {
				dump = DumpCode(code)
			}
			if i == 0 {
				first = dump
			} else if dump != first {
				return "order-dependence", fmt.Sprintf("compilation %d differs", i), nil
			}
		}
		return "", "", nil
	}
}

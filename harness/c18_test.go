//go:build verif

package harness

// C18 — compilation is a deterministic, side-effect-free function of its input (DESIGN section 6).

import (
	"fmt"
	"os"
	"regexp"
	"strings"
	"sync"
	"testing"

	"github.com/go-python/gpython/py"
	"pgregory.net/rapid"
)

// compileDump compiles and returns the canonical dump, or "error:<class>"
func compileDump(src, name string, mode py.CompileMode) (out string) {
	defer func() {
		if r := recover(); r != nil {
			out = "panic:" + panicClass(r)
		}
	}()
	code, err := py.Compile(src, name, mode, 0, true)
	if err != nil {
		cls, _ := ErrClass(err)
		return "error:" + cls
	}
	return DumpCode(code)
}

// c18Source draws one source text from the generators of the other properties or the repository
func c18Source(r *Run, g *G, files []string) (string, string) {
	switch g.Weighted(3, 3, 2, 2, 3, 2) {
	case 4:
		return c18ClassSource(g), "class-cells"
	case 5:
		c := &c03Gen{g: g, r: r, kinds: map[string]bool{}, budget: 30}
		msc := &c03Scope{kind: "module", depth: 1, fnBound: map[string]bool{}, declared: map[string]string{}}
		return c18Rename(g, c.body(msc)), "scopes-renamed"
	case 0:
		c := &c06Gen{g: g, r: r, kinds: map[string]bool{}, nperturb: map[string]bool{}, budget: 40}
		var toks []string
		n := g.Int(1, 4)
		for i := 0; i < n; i++ {
			st, _ := c.stmtLine(3)
			toks = append(toks, st...)
		}
		return c.render(toks, false), "grammar"
	case 1:
		c := &c03Gen{g: g, r: r, kinds: map[string]bool{}, budget: 30}
		msc := &c03Scope{kind: "module", depth: 1, fnBound: map[string]bool{}, declared: map[string]string{}}
		return c03Prelude + c.body(msc), "scopes"
	case 2:
		c := &c02Gen{g: g, r: r, maxExit: 3, kinds: map[string]bool{}}
		body := c.block(c02Ctx{depth: 1}, 2)
		return c02Prelude + "def fn(k):\n" + Indent(body, 4) + "    return 'end'\n", "control-flow"
	default:
		if len(files) == 0 {
			return "x = 1\n", "repo"
		}
		b, err := os.ReadFile(files[g.N(len(files))])
		if err != nil {
			return "x = 1\n", "repo"
		}
		return string(b), "repo"
	}
}

// identifiers whose order relative to each other and to the compiler's implicit names (__class__, .0, __doc__ ...) varies:
// upper case, leading underscores, digits, non-ASCII
var c18Idents = []string{"A", "B", "Base", "Tag", "Z", "_A", "_a", "_1", "__x", "__X__", "a", "b", "a1", "a_", "z", "zz", "\u00e9", "\u0394x", "K9", "_", "__", "cls", "self_", "M", "__classy__", "__clas"}

// c18ClassSource: classes nested in functions whose methods use super()/__class__ together with free variables of every spelling
func c18ClassSource(g *G) string {
	pick := func() string { return c18Idents[g.N(len(c18Idents))] }
	var sb strings.Builder
	nf := g.Int(1, 3)
	for f := 0; f < nf; f++ {
		params := map[string]bool{}
		var plist []string
		for i, n := 0, g.Int(1, 4); i < n; i++ {
			p := pick()
			if !params[p] {
				params[p] = true
				plist = append(plist, p)
			}
		}
		fmt.Fprintf(&sb, "def outer%d(%s):\n", f, strings.Join(plist, ", "))
		locals := append([]string(nil), plist...)
		for i, n := 0, g.Int(0, 3); i < n; i++ {
			v := pick()
			fmt.Fprintf(&sb, "    %s = %d\n", v, i)
			locals = append(locals, v)
		}
		use := func() string {
			var parts []string
			for i, n := 0, g.Int(1, 4); i < n; i++ {
				parts = append(parts, locals[g.N(len(locals))])
			}
			if g.Bool() {
				parts = append(parts, g.Str("__class__", "super()", "super().__init__", "__class__.__name__"))
			}
			for i := len(parts) - 1; i > 0; i-- {
				j := g.N(i + 1)
				parts[i], parts[j] = parts[j], parts[i]
			}
			return "(" + strings.Join(parts, ", ") + ",)"
		}
		nc := g.Int(1, 2)
		for c := 0; c < nc; c++ {
			fmt.Fprintf(&sb, "    class %s%s:\n", pick(), g.Str("", "(object)", "("+locals[g.N(len(locals))]+")"))
			if g.Bool() {
				fmt.Fprintf(&sb, "        %s = %s\n", pick(), locals[g.N(len(locals))])
			}
			for m, nm := 0, g.Int(1, 3); m < nm; m++ {
				fmt.Fprintf(&sb, "        def %s(self, %s=None):\n", g.Str("m", "n", "__init__", pick()), pick())
				if g.Chance(1, 3) {
					fmt.Fprintf(&sb, "            def inner():\n                return %s\n", use())
				}
				if g.Chance(1, 4) {
					fmt.Fprintf(&sb, "            g = lambda: %s\n", use())
				}
				if g.Chance(1, 4) {
					fmt.Fprintf(&sb, "            h = [%s for %s in %s]\n", use(), pick(), locals[g.N(len(locals))])
				}
				fmt.Fprintf(&sb, "            return %s\n", use())
			}
		}
		fmt.Fprintf(&sb, "    return %s\n", use())
	}
	return sb.String()
}

var c18IdentRe = regexp.MustCompile(`\b[a-z][a-z0-9_]*\b`)

// c18Rename substitutes identifiers of a generated program by hostile spellings (the compilation oracle does not need the program to keep its meaning)
func c18Rename(g *G, src string) string {
	keep := map[string]bool{}
	for _, k := range []string{"def", "class", "return", "if", "else", "elif", "for", "in", "while", "try", "except", "finally", "with", "as", "import", "from", "global", "nonlocal", "lambda", "pass",
		"break", "continue", "raise", "yield", "del", "assert", "not", "and", "or", "is", "print", "len", "range", "super", "self", "object", "list", "sorted", "isinstance"} {
		keep[k] = true
	}
	mapping := map[string]string{}
	perm := append([]string(nil), c18Idents...)
	for i := len(perm) - 1; i > 0; i-- {
		j := g.N(i + 1)
		perm[i], perm[j] = perm[j], perm[i]
	}
	next := 0
	return c18IdentRe.ReplaceAllStringFunc(src, func(id string) string {
		if keep[id] || strings.HasPrefix(id, "u0") {
			return id
		}
		if m, ok := mapping[id]; ok {
			return m
		}
		if next >= len(perm) || len(mapping) >= 8 {
			return id
		}
		mapping[id] = perm[next]
		next++
		return mapping[id]
	})
}

func c18NT(dump string) bool {
	return strings.Count(dump, "code{") >= 1 && (strings.Count(dump, "\"") >= 12 || strings.Count(dump, "; ") >= 5)
}

func TestC18(t *testing.T) {
	r := StartRun(t, "C18")
	defer r.Finish()
	k := r.Pick(16, 64)
	r.Extra("rule", fmt.Sprintf("sources drawn from the grammar generator (C06), the scope-tree generator (C03), the control-flow generator (C02) and the repository's .py files; each group of three sources is "+
		"compiled %d times each in a rapid-drawn interleaving, in exec mode and (first source) in all three modes; oracle: the canonical deep dump of the code object (bytecode, constants by type and "+
		"value, names, variable tables, flags, argument counts, stack size, first line, line table, file name, name, recursively) is identical every time, failures fail with the same class every "+
		"time, and a program run before and after unrelated (also failing) compilations observes the same. A second phase (race-detector build) compiles the same and different sources from 16 "+
		"goroutines while two contexts execute. Non-trivial: nested code objects with several names/constants; distinct by source text.", k))
	r.Extra("assumptions", []string{"data races are observed only on the schedules the Go runtime takes under -race (sampling strength)"})
	r.ReplayKnown()
	files := c11RepoFiles()
	rapid.Check(t, func(rt *rapid.T) {
		g := &G{T: rt}
		var srcs [3]string
		for i := range srcs {
			var cls string
			srcs[i], cls = c18Source(r, g, files)
			r.Class(cls)
		}
		first := [3]string{}
		counts := [3]int{}
		total := 3 * k
		for n := 0; n < total; n++ {
			// rapid draws which source is compiled next (interleaving)
			i := g.N(3)
			for counts[i] >= k {
				i = (i + 1) % 3
			}
			counts[i]++
			d := compileDump(srcs[i], "<c18>", py.ExecMode)
			if counts[i] == 1 {
				first[i] = d
				r.Count(srcs[i], c18NT(d))
				continue
			}
			if d != first[i] {
				if !r.Mismatch(&Case{Kind: "c18", Sig: "nondeterministic:" + c18DiffField(first[i], d), Program: srcs[i], Mode: "exec", Expected: first[i], Actual: d,
					Detail: fmt.Sprintf("compilation %d of source %d differs from its first compilation", counts[i], i)}) {
					rt.Fatalf("C18 mismatch")
				}
				return
			}
		}
		r.AddExtra("compilations", int64(total))
		r.Sample(srcs[0], srcs[0])
		// all three modes for the first source
		for _, mode := range c11Modes {
			a := compileDump(srcs[0], "<c18>", mode)
			_ = compileDump(srcs[1], "<other>", py.ExecMode)
			b := compileDump(srcs[0], "<c18>", mode)
			if a != b {
				if !r.Mismatch(&Case{Kind: "c18", Sig: "nondeterministic:mode-" + string(mode), Program: srcs[0], Mode: string(mode), Expected: a, Actual: b}) {
					rt.Fatalf("C18 mismatch")
				}
			}
		}
		// a running context is not disturbed by compilations
		prog := "_res = []\ndef f(a, b=2, *c, d=4, **e):\n    return (a, b, c, d, e)\n_res.append(f(1))\n_res.append([x * 2 for x in range(3)])\n_res.append(sorted({'k': 1}.keys()))\n"
		before := RunProgram(prog, RunOpts{Vars: []string{"_res"}})
		for i := range srcs {
			compileDump(srcs[i], "<noise>", py.ExecMode)
			compileDump(srcs[i]+"\n)(", "<noise>", py.ExecMode)
		}
		after := RunProgram(prog, RunOpts{Vars: []string{"_res"}})
		if before.Obs["_res"] != after.Obs["_res"] || before.Exc != after.Exc {
			if !r.Mismatch(&Case{Kind: "c18", Sig: "state-left-behind", Program: srcs[0], Mode: "exec", Expected: before.Obs["_res"], Actual: after.Obs["_res"] + after.Exc}) {
				rt.Fatalf("C18 mismatch")
			}
		}
	})
}

func c18DiffField(a, b string) string {
	la, lb := strings.Split(a, "\n"), strings.Split(b, "\n")
	for i := 0; i < len(la) && i < len(lb); i++ {
		if la[i] != lb[i] {
			l := strings.TrimSpace(la[i])
			if j := strings.IndexAny(l, "= "); j > 0 {
				return l[:j]
			}
			return "line"
		}
	}
	return "length"
}

// TestC18Race: concurrent compilation from many goroutines (run from a -race build)
func TestC18Race(t *testing.T) {
	r := StartRun(t, "C18")
	defer r.Finish()
	files := c11RepoFiles()
	rapid.Check(t, func(rt *rapid.T) {
		g := &G{T: rt}
		var srcs []string
		for i := 0; i < 4; i++ {
			s, cls := c18Source(r, g, files)
			srcs = append(srcs, s)
			r.Class("race:" + cls)
		}
		want := make([]string, len(srcs))
		for i, s := range srcs {
			want[i] = compileDump(s, "<c18>", py.ExecMode)
			r.Count("race:"+s, c18NT(want[i]))
		}
		var wg sync.WaitGroup
		start := make(chan struct{})
		errs := make(chan string, 64)
		for w := 0; w < 16; w++ {
			wg.Add(1)
			go func(w int) {
				defer wg.Done()
				<-start
				for n := 0; n < 4; n++ {
					i := (w + n) % len(srcs)
					if w%2 == 0 {
						i = 0 // half of the workers compile the identical source
					}
					if d := compileDump(srcs[i], "<c18>", py.ExecMode); d != want[i] {
						errs <- fmt.Sprintf("worker %d source %d: concurrent compilation differs from the sequential one", w, i)
					}
				}
			}(w)
		}
		// two contexts executing meanwhile
		prog := "_res = []\nfor i in range(200):\n    _res.append(i * i)\n"
		for c := 0; c < 2; c++ {
			wg.Add(1)
			go func() {
				defer wg.Done()
				<-start
				res := RunProgram(prog, RunOpts{Vars: []string{"_res"}})
				if res.Exc != "" || res.Panic != "" {
					errs <- "executing context failed: " + res.Exc + res.Panic
				}
			}()
		}
		close(start)
		wg.Wait()
		close(errs)
		for e := range errs {
			if !r.Mismatch(&Case{Kind: "c18", Sig: "concurrent-differs", Program: srcs[0], Mode: "exec", Expected: "identical dumps", Actual: e}) {
				rt.Fatalf("C18 race-phase mismatch")
			}
			break
		}
		r.AddExtra("concurrent_compilations", 64)
	})
}

func init() {
	replayers["c18"] = func(c *Case) (string, string, error) {
		mode := py.CompileMode(c.Mode)
		if mode == "" {
			mode = py.ExecMode
		}
		first := compileDump(c.Program, "<c18>", mode)
		for i := 0; i < 500; i++ {
			if d := compileDump(c.Program, "<c18>", mode); d != first {
				return "nondeterministic:" + c18DiffField(first, d), fmt.Sprintf("compilation %d differs", i+2), nil
			}
		}
		return "", "", nil
	}
}

//go:build verif

package harness

// C09 — Close/Done are safe under every interleaving with execution (DESIGN section 6, hook 1).

import (
	"bytes"
	"fmt"
	"os"
	"path/filepath"
	"runtime"
	"strconv"
	"strings"
	"sync"
	"sync/atomic"
	"testing"
	"time"

	"github.com/go-python/gpython/py"
	"github.com/go-python/gpython/stdlib"
	"pgregory.net/rapid"
)

// ---------------------------------------------------------------- controlled scheduler

type c09Event struct {
	worker int
	kind   string // yield point name, or op-start / op-end / done-observed / worker-exit
	op     string
	err    string // op-end: "" ok, "error:<class>", "panic:<msg>"
}

type c09Worker struct {
	id       int
	gid      int64
	resume   chan struct{}
	ops      []string
	state    int32 // 0 running, 1 parked, 2 blocked, 3 done
	parkedAt string
}

type c09Sched struct {
	mu              sync.Mutex
	workers         []*c09Worker
	byGid           map[int64]*c09Worker
	events          chan c09Event
	history         []c09Event
	ctx             py.Context
	closedCallbacks int32
	code            *py.Code
	holdCode        *py.Code
	faultCode       *py.Code
	dir             string
}

func curGid() int64 {
	var buf [64]byte
	n := runtime.Stack(buf[:], false)
	// "goroutine 123 ["
	s := string(buf[:n])
	s = strings.TrimPrefix(s, "goroutine ")
	if i := strings.IndexByte(s, ' '); i > 0 {
		id, _ := strconv.ParseInt(s[:i], 10, 64)
		return id
	}
	return -1
}

var c09Current atomic.Value // *c09Sched

// the hook installed in stdlib: park the calling worker at the yield point
func c09Yield(ctx py.Context, point string) {
	s, _ := c09Current.Load().(*c09Sched)
	if s == nil || s.ctx != ctx {
		return
	}
	gid := curGid()
	s.mu.Lock()
	w := s.byGid[gid]
	s.mu.Unlock()
	if w == nil {
		return // not a controlled goroutine (e.g. the scheduler building the context)
	}
	s.events <- c09Event{worker: w.id, kind: point}
	<-w.resume
}

// goroutine states from a full stack dump: gid -> state text
func goroutineStates() map[int64]string {
	buf := make([]byte, 1<<16)
	for {
		n := runtime.Stack(buf, true)
		if n < len(buf) {
			buf = buf[:n]
			break
		}
		buf = make([]byte, 2*len(buf))
	}
	out := map[int64]string{}
	for _, block := range bytes.Split(buf, []byte("\n\n")) {
		if !bytes.HasPrefix(block, []byte("goroutine ")) {
			continue
		}
		line := block
		if i := bytes.IndexByte(block, '\n'); i >= 0 {
			line = block[:i]
		}
		s := string(line[len("goroutine "):])
		i := strings.IndexByte(s, ' ')
		if i < 0 {
			continue
		}
		id, _ := strconv.ParseInt(s[:i], 10, 64)
		st := s[i+1:]
		st = strings.TrimSuffix(strings.TrimPrefix(st, "["), "]:")
		out[id] = st
	}
	return out
}

func isBlockedState(st string) bool {
	// e.g. "semacquire", "sync.Mutex.Lock", "chan receive", "sync.WaitGroup.Wait", "sync.Cond.Wait", "select", "sync.RWMutex.Lock"
	for _, k := range []string{"semacquire", "sync.", "chan receive", "chan send", "select"} {
		if strings.HasPrefix(st, k) {
			return true
		}
	}
	return false
}

// ---------------------------------------------------------------- operations

var c09OpNames = []string{"run", "run-hold", "modinit", "modinit-go", "resolve", "close", "waitdone", "close2"}

func (s *c09Sched) doOp(w *c09Worker, op string) (res string) {
	defer func() {
		if r := recover(); r != nil {
			res = "panic:" + fmt.Sprint(r)
		}
	}()
	var err error
	switch op {
	case "run":
		g := py.NewStringDict()
		_, err = s.ctx.RunCode(s.code, g, g, nil)
	case "run-hold":
		g := py.NewStringDict()
		_, err = s.ctx.RunCode(s.holdCode, g, g, nil)
	case "modinit":
		_, err = s.ctx.ModuleInit(&py.ModuleImpl{Info: py.ModuleInfo{Name: fmt.Sprintf("m%d", w.id)}, Code: s.code})
	case "modinit-go":
		// a module implemented in Go only (no code body to run): still an execution request, admitted or refused like the others
		_, err = s.ctx.ModuleInit(&py.ModuleImpl{Info: py.ModuleInfo{Name: fmt.Sprintf("g%d", w.id)}, Globals: py.StringDict{}})
	case "resolve":
		_, err = s.ctx.ResolveAndCompile(filepath.Join(s.dir, "prog.py"), py.CompileOpts{})
	case "resolve-fault":
		// injected fault: sys.path is an object whose iteration fails - with a Python error for one worker, with a
		// Go panic for the other - so ResolveAndCompile is left between admission and release
		// (the panic is recovered by the deferred function above; what matters is that the context stays closable)
		sys := s.ctx.Store().MustGetModule("sys")
		old := sys.Globals["path"]
		if w.id%2 == 0 {
			sys.Globals["path"] = py.Int(5)
		} else {
			sys.Globals["path"] = &c09BadSeq{}
		}
		defer func() { sys.Globals["path"] = old }()
		_, err = s.ctx.ResolveAndCompile("prog.py", py.CompileOpts{UseSysPaths: true})
	case "modinit-fault":
		_, err = s.ctx.ModuleInit(&py.ModuleImpl{Info: py.ModuleInfo{Name: fmt.Sprintf("bad%d", w.id)}, CodeSrc: "x = = 1\n"})
	case "run-fault":
		g := py.NewStringDict()
		_, err = s.ctx.RunCode(s.faultCode, g, g, nil)
	case "close", "close2":
		err = s.ctx.Close()
	case "waitdone":
		<-s.ctx.Done()
		s.events <- c09Event{worker: w.id, kind: "done-observed"}
		<-w.resume
	}
	if err != nil {
		cls, _ := ErrClass(err)
		return "error:" + cls
	}
	return ""
}

// the Go function called by "run-hold" code: an execution that is in progress while others act
func init() {
	py.RegisterModule(&py.ModuleImpl{
		Info: py.ModuleInfo{Name: "verifhold"},
		Methods: []*py.Method{py.MustNewMethod("hold", func(self py.Object) (py.Object, error) {
			if m, ok := self.(*py.Module); ok && m != nil {
				c09Yield(m.Context, "exec.inside1")
				c09Yield(m.Context, "exec.inside2")
			}
			return py.None, nil
		}, 0, ""), py.MustNewMethod("boom", func(self py.Object) (py.Object, error) {
			var m map[string]int
			m["injected fault"] = 1 // a Go panic inside a Go function called from Python
			return py.None, nil
		}, 0, "")},
		Globals: py.StringDict{},
	})
	py.RegisterModule(&py.ModuleImpl{
		Info:    py.ModuleInfo{Name: "verifclosecb"},
		Globals: py.StringDict{},
		OnContextClosed: func(m *py.Module) {
			if s, _ := c09Current.Load().(*c09Sched); s != nil && s.ctx == m.Context {
				atomic.AddInt32(&s.closedCallbacks, 1)
			}
		},
	})
}

// c09BadSeq is a Python object whose iteration panics in Go
type c09BadSeq struct{}

var c09BadSeqType = py.NewType("VerifBadSeq", "iteration panics")

func (*c09BadSeq) Type() *py.Type { return c09BadSeqType }
func (*c09BadSeq) M__iter__() (py.Object, error) {
	var m map[string]int
	m["injected fault"] = 1
	return nil, nil
}

// ---------------------------------------------------------------- one controlled run

type c09Result struct {
	choices    []int // decisions taken
	alts       []int // number of alternatives at each decision
	violation  string
	detail     string
	history    []c09Event
	switches   int
	nontrivial bool
}

// runSchedule executes the configuration under the given choice prefix (beyond it: first enabled worker)
func c09RunSchedule(cfg [][]string, prefix []int, dir string, code, holdCode *py.Code) c09Result {
	s := &c09Sched{byGid: map[int64]*c09Worker{}, events: make(chan c09Event, 64), code: code, holdCode: holdCode, dir: dir}
	s.faultCode, _ = py.Compile("import verifhold\nverifhold.boom()\n", "<c09fault>", py.ExecMode, 0, true)
	// build the context before the hook controls anything
	s.ctx = py.NewContext(py.ContextOpts{SysPaths: []string{dir}})
	if err := py.Import(s.ctx, "verifclosecb", "verifhold"); err != nil {
		return c09Result{violation: "infra", detail: "import failed: " + err.Error()}
	}
	c09Current.Store(s)
	defer c09Current.Store((*c09Sched)(nil))
	var res c09Result
	closeReturned := int32(0)
	for i, ops := range cfg {
		w := &c09Worker{id: i, resume: make(chan struct{}), ops: ops}
		s.workers = append(s.workers, w)
	}
	started := make(chan struct{}, len(cfg))
	for _, w := range s.workers {
		w := w
		go func() {
			w.gid = curGid()
			s.mu.Lock()
			s.byGid[w.gid] = w
			s.mu.Unlock()
			started <- struct{}{}
			for _, op := range w.ops {
				after := atomic.LoadInt32(&closeReturned) > 0
				opName := op
				if after {
					opName += "@after-close"
				}
				s.events <- c09Event{worker: w.id, kind: "op-start", op: opName}
				<-w.resume
				r := s.doOp(w, op)
				if op == "close" || op == "close2" {
					atomic.AddInt32(&closeReturned, 1)
				}
				s.events <- c09Event{worker: w.id, kind: "op-end", op: opName, err: r} // reported, not a scheduling point
			}
			s.events <- c09Event{worker: w.id, kind: "worker-exit"}
		}()
	}
	for range s.workers {
		<-started
	}
	// every worker first reports "start"
	state := make([]int, len(s.workers)) // 0 running, 1 parked, 2 blocked, 3 done
	pending := len(s.workers)
	admitted, finished := 0, 0
	callbacksRan := false
	hadClose := false
	inCloseOrExec := map[int]bool{}
	lastWorker := -1
	record := func(ev c09Event) {
		res.history = append(res.history, ev)
		switch ev.kind {
		case "push.added":
			admitted++
			if callbacksRan {
				res.violation, res.detail = "admitted-after-callbacks", fmt.Sprintf("worker %d was admitted after the close callbacks ran", ev.worker)
			}
		case "pop.done":
			finished++
		case "close.callbacks":
			callbacksRan = true
			if admitted-finished > 0 {
				res.violation, res.detail = "callbacks-before-executions-finished", fmt.Sprintf("close callbacks ran while %d admitted executions were unfinished", admitted-finished)
			}
		case "close.done":
			if admitted-finished > 0 {
				res.violation, res.detail = "done-early", fmt.Sprintf("Done was signalled while %d admitted executions were unfinished", admitted-finished)
			}
			if !callbacksRan {
				res.violation, res.detail = "done-before-callbacks", "Done was signalled before the close callbacks ran"
			}
		case "done-observed":
			if !callbacksRan || admitted-finished > 0 {
				res.violation, res.detail = "done-early", "a Done waiter woke before the callbacks ran / executions finished"
			}
		case "op-end":
			if strings.HasPrefix(ev.err, "panic:") && !strings.Contains(ev.op, "-fault") {
				res.violation, res.detail = "panic:"+panicClass(strings.TrimPrefix(ev.err, "panic:")), fmt.Sprintf("worker %d op %s panicked: %s", ev.worker, ev.op, ev.err)
			}
			if strings.HasPrefix(ev.op, "close") && ev.err == "" {
				hadClose = true
				if admitted-finished > 0 {
					res.violation, res.detail = "close-returned-early", fmt.Sprintf("Close returned while %d admitted executions were unfinished", admitted-finished)
				}
			}
			if strings.HasSuffix(ev.op, "@after-close") && !strings.HasPrefix(ev.op, "close") && !strings.HasPrefix(ev.op, "waitdone") && ev.err == "" {
				res.violation, res.detail = "accepted-after-close", fmt.Sprintf("worker %d: %s started after a Close had returned and still succeeded", ev.worker, ev.op)
			}
		}
		// non-triviality: a switch while a close or an execution is between its first and last yield point
		switch {
		case strings.HasPrefix(ev.kind, "close.") || strings.HasPrefix(ev.kind, "push.") || strings.HasPrefix(ev.kind, "exec."):
			inCloseOrExec[ev.worker] = true
		case ev.kind == "op-end":
			inCloseOrExec[ev.worker] = false
		}
	}
	waitEvent := func(timeout time.Duration) (c09Event, bool) {
		select {
		case ev := <-s.events:
			return ev, true
		case <-time.After(timeout):
			return c09Event{}, false
		}
	}
	handle := func(ev c09Event) {
		record(ev)
		if ev.kind == "worker-exit" {
			state[ev.worker] = 3
		} else if ev.kind == "op-end" {
			state[ev.worker] = 0 // keeps running to its next scheduling point
		} else {
			state[ev.worker] = 1
			s.workers[ev.worker].parkedAt = ev.kind
		}
	}
	// settle waits until no worker is running: each is parked, blocked or done
	settle := func() bool {
		deadline := time.Now().Add(20 * time.Second)
		for {
			running := false
			for i := range state {
				if state[i] == 0 || state[i] == 2 {
					running = true
				}
			}
			if !running {
				return true
			}
			if ev, ok := waitEvent(300 * time.Microsecond); ok {
				handle(ev)
				continue
			}
			// nothing reported: look at the goroutine states
			gs := goroutineStates()
			allQuiet := true
			for i, w := range s.workers {
				if state[i] == 0 || state[i] == 2 {
					if isBlockedState(gs[w.gid]) {
						state[i] = 2
					} else {
						state[i] = 0
						allQuiet = false
					}
				}
			}
			if allQuiet {
				// confirm with a second look (a goroutine may be between two blocking calls)
				if ev, ok := waitEvent(200 * time.Microsecond); ok {
					handle(ev)
					continue
				}
				gs2 := goroutineStates()
				same := true
				for i, w := range s.workers {
					if state[i] == 2 && !isBlockedState(gs2[w.gid]) {
						same = false
					}
				}
				if same {
					return true
				}
			}
			if time.Now().After(deadline) {
				res.violation, res.detail = "infra", "scheduler could not settle"
				return false
			}
		}
	}
	_ = pending
	step := 0
	for res.violation == "" {
		if !settle() {
			break
		}
		var enabled []int
		done := 0
		for i := range state {
			switch state[i] {
			case 1:
				enabled = append(enabled, i)
			case 3:
				done++
			}
		}
		if done == len(state) {
			break
		}
		if len(enabled) == 0 {
			// Before concluding: on a busy machine a goroutine can be seen in a blocking call twice in a row
			// while it is merely slow. A deadlock stays one: wait two seconds for any sign of life first.
			if ev, ok := waitEvent(2 * time.Second); ok {
				handle(ev)
				continue
			}
			alive := false
			gsNow := goroutineStates()
			for i, w := range s.workers {
				if state[i] == 2 && !isBlockedState(gsNow[w.gid]) {
					state[i] = 0
					alive = true
				}
			}
			if alive {
				continue
			}
			var bl []string
			gs := goroutineStates()
			for i, w := range s.workers {
				if state[i] == 2 {
					bl = append(bl, fmt.Sprintf("worker %d (%v) blocked in %s", i, w.ops, gs[w.gid]))
				}
			}
			res.violation, res.detail = "deadlock", strings.Join(bl, "; ")
			break
		}
		choice := 0
		if step < len(prefix) {
			choice = prefix[step]
			if choice >= len(enabled) {
				choice = len(enabled) - 1
			}
		}
		res.choices = append(res.choices, choice)
		res.alts = append(res.alts, len(enabled))
		wi := enabled[choice]
		if lastWorker >= 0 && wi != lastWorker {
			res.switches++
			for _, busy := range inCloseOrExec {
				if busy {
					res.nontrivial = true
				}
			}
		}
		lastWorker = wi
		state[wi] = 0
		s.workers[wi].resume <- struct{}{}
		step++
		if step > 400 {
			res.violation, res.detail = "infra", "schedule too long"
			break
		}
	}
	if res.violation == "" {
		want := int32(0)
		if hadClose {
			want = 1
		}
		if got := atomic.LoadInt32(&s.closedCallbacks); got != want {
			res.violation, res.detail = "callback-count", fmt.Sprintf("OnContextClosed ran %d times, expected %d", got, want)
		}
	}
	// release whatever is left so goroutines do not leak parked forever
	if res.violation != "" {
		go func() {
			for i := 0; i < 2000; i++ {
				for _, w := range s.workers {
					select {
					case w.resume <- struct{}{}:
					default:
					}
				}
				select {
				case <-s.events:
				default:
				}
				time.Sleep(time.Millisecond)
			}
		}()
	}
	res.history = append([]c09Event(nil), res.history...)
	return res
}

func c09HistoryText(h []c09Event) string {
	var sb strings.Builder
	for _, e := range h {
		if e.kind == "op-start" || e.kind == "op-end" {
			fmt.Fprintf(&sb, "w%d:%s(%s)%s ", e.worker, e.kind, e.op, map[bool]string{true: "=" + e.err, false: ""}[e.err != ""])
		} else {
			fmt.Fprintf(&sb, "w%d:%s ", e.worker, e.kind)
		}
	}
	return sb.String()
}

// c09Explore enumerates all schedules of a configuration by stateless DFS (bounded by maxSchedules)
func c09Explore(r *Run, cfg [][]string, dir string, code, hold *py.Code, maxSchedules int, preemptBound int) (n int, complete bool) {
	var prefix []int
	for {
		res := c09RunSchedule(cfg, prefix, dir, code, hold)
		n++
		key := fmt.Sprint(cfg, res.choices)
		r.Count(key, res.nontrivial)
		if n%97 == 1 {
			r.Sample(key, fmt.Sprintf("config %v schedule %v: %s", cfg, res.choices, c09HistoryText(res.history)))
		}
		if res.violation == "infra" {
			r.Infra("C09 scheduler: %s (config %v prefix %v)", res.detail, cfg, prefix)
		}
		if res.violation != "" {
			r.Mismatch(&Case{Kind: "c09", Sig: res.violation, Args: map[string]interface{}{"config": cfg, "choices": res.choices},
				Program: fmt.Sprintf("config %v schedule %v", cfg, res.choices), Expected: "life-cycle invariants hold", Actual: res.detail, Detail: c09HistoryText(res.history)})
			return n, false // one violation per configuration is enough; the search goes on with the next configuration
		}
		// backtrack
		i := len(res.choices) - 1
		for i >= 0 && res.choices[i]+1 >= res.alts[i] {
			i--
		}
		if i < 0 {
			return n, true
		}
		prefix = append(append([]int(nil), res.choices[:i]...), res.choices[i]+1)
		if n >= maxSchedules {
			return n, false
		}
	}
}

func c09Setup(r *Run) (string, *py.Code, *py.Code) {
	dir := filepath.Join(r.OutDir, "c09files")
	os.MkdirAll(dir, 0o755)
	os.WriteFile(filepath.Join(dir, "prog.py"), []byte("x = 1\n"), 0o644)
	code, err := py.Compile("x = 1\n", "<c09>", py.ExecMode, 0, true)
	if err != nil {
		r.Infra("%v", err)
	}
	hold, err := py.Compile("import verifhold\nverifhold.hold()\n", "<c09hold>", py.ExecMode, 0, true)
	if err != nil {
		r.Infra("%v", err)
	}
	return dir, code, hold
}

func TestC09(t *testing.T) {
	r := StartRun(t, "C09")
	defer r.Finish()
	r.Extra("rule", "configurations of 2 goroutines (exhaustive: every ordered pair of operations from RunCode, RunCode of code that calls back into a yielding Go function, ModuleInit, "+
		"ResolveAndCompile, Close, a second Close, wait-on-Done, where at least one side closes; plus two-operation scripts) and of 3 goroutines (rapid-drawn scripts and schedules), run under a "+
		"harness-owned scheduler that parks every goroutine at every life-cycle yield point (hook) and resumes exactly one; blocked goroutines are detected from the runtime's goroutine states. "+
		"All schedules of each 2-goroutine configuration are enumerated by stateless depth-first search. Oracle: invariants over the event history - no panic, no deadlock, Close returns only "+
		"with no admitted execution unfinished, Done signalled only after that and after the callbacks, callbacks exactly once, no admission after the callbacks, requests started after a "+
		"returned Close fail with an ordinary error. Non-trivial: a context switch while a Close or an execution is between its yield points; distinct by (configuration, schedule).")
	r.Extra("assumptions", []string{"interleavings at the granularity of the hook's yield points (between the life cycle's shared-state accesses), not machine instructions"})
	r.ReplayKnown()
	stdlib.VerifYield = c09Yield
	defer func() { stdlib.VerifYield = nil }()
	dir, code, hold := c09Setup(r)
	ops := []string{"run", "run-hold", "modinit", "modinit-go", "resolve", "close", "waitdone"}
	opsRandom := append(append([]string(nil), ops...), "resolve-fault", "modinit-fault", "run-fault")
	var cfgs [][][]string
	for _, a := range ops {
		for _, b := range ops {
			if a != "close" && b != "close" {
				continue // pairs that involve Close (the others do not touch the life cycle's conflict)
			}
			if a == "waitdone" && b == "waitdone" {
				continue
			}
			cfgs = append(cfgs, [][]string{{a}, {b}})
		}
	}
	// scripts of two operations
	cfgs = append(cfgs, [][]string{{"close", "run"}, {"run-hold"}}, [][]string{{"run", "close"}, {"close2", "run"}}, [][]string{{"close"}, {"run", "run"}}, [][]string{{"run-hold", "close"}, {"modinit", "waitdone"}},
		[][]string{{"close", "close2"}, {"resolve"}}, [][]string{{"close"}, {"close2"}}, [][]string{{"close", "modinit"}, {"waitdone"}}, [][]string{{"close", "modinit-go"}, {"waitdone"}}, [][]string{{"run-hold", "close"}, {"modinit-go", "run"}},
		// fault sequences: an execution that fails or panics between admission and release must not leak the busy count
		[][]string{{"resolve-fault", "close"}, {"waitdone"}}, [][]string{{"modinit-fault", "close"}, {"run"}}, [][]string{{"run-fault", "close"}, {"waitdone"}},
		[][]string{{"resolve-fault"}, {"close"}}, [][]string{{"run-fault"}, {"close"}}, [][]string{{"modinit-fault"}, {"close"}})
	if r.Thorough() {
		for _, a := range ops {
			for _, b := range ops {
				for _, c := range ops {
					n := 0
					for _, x := range []string{a, b, c} {
						if x == "close" {
							n++
						}
					}
					if n == 0 || (a == "waitdone" && b == "waitdone") {
						continue
					}
					if !c09Sound([][]string{{a, b}, {c}}) {
						continue // a Done waiter nobody can release: a deadlock of the configuration's own making
					}
					cfgs = append(cfgs, [][]string{{a, b}, {c}})
				}
			}
		}
	}
	maxPer := r.Pick(1500, 60000)
	allComplete := true
	for ci, cfg := range cfgs {
		if ci%r.NShards != r.Shard {
			continue
		}
		n, complete := c09Explore(r, cfg, dir, code, hold, maxPer, 0)
		r.AddExtra("schedules", int64(n))
		r.Class(fmt.Sprintf("2-goroutines"))
		if !complete {
			allComplete = false
		}
	}
	r.SetExhaustive(allComplete)
	// three goroutines: rapid-drawn scripts and schedules
	rapid.Check(t, func(rt *rapid.T) {
		g := &G{T: rt}
		var cfg [][]string
		hasClose := false
		for i := 0; i < 3; i++ {
			n := g.Int(1, 2)
			var script []string
			for k := 0; k < n; k++ {
				op := opsRandom[g.N(len(opsRandom))]
				if op == "close" {
					hasClose = true
				}
				script = append(script, op)
			}
			cfg = append(cfg, script)
		}
		if !hasClose {
			cfg[g.N(3)][0] = "close"
		}
		// soundness: a Done waiter needs a Close that does not itself wait first in the same script
		if !c09Sound(cfg) {
			for _, script := range cfg {
				for k, op := range script {
					if op == "waitdone" {
						script[k] = "run"
					}
				}
			}
		}
		// a Done waiter needs someone to close: guaranteed above
		nchoices := g.Int(0, 40)
		var prefix []int
		for i := 0; i < nchoices; i++ {
			prefix = append(prefix, g.N(3))
		}
		res := c09RunSchedule(cfg, prefix, dir, code, hold)
		key := fmt.Sprint(cfg, res.choices)
		r.Count(key, res.nontrivial)
		r.Class("3-goroutines")
		r.AddExtra("schedules", 1)
		if res.violation == "infra" {
			r.Infra("C09 scheduler: %s (config %v)", res.detail, cfg)
		}
		if res.violation != "" {
			if !r.Mismatch(&Case{Kind: "c09", Sig: res.violation, Args: map[string]interface{}{"config": cfg, "choices": res.choices},
				Program: fmt.Sprintf("config %v schedule %v", cfg, res.choices), Expected: "life-cycle invariants hold", Actual: res.detail, Detail: c09HistoryText(res.history)}) {
				rt.Fatalf("C09 violation %s", res.violation)
			}
		}
	})
}

// c09Sound: every Done waiter can be released - some script reaches a Close without waiting on Done first
// (or nobody waits at all)
func c09Sound(cfg [][]string) bool {
	waits := false
	free := false
	for _, script := range cfg {
		blocked := false
		for _, op := range script {
			if op == "waitdone" {
				waits = true
				blocked = true
			}
			if (op == "close" || op == "close2") && !blocked {
				free = true
			}
		}
	}
	return free || !waits
}

func init() {
	replayers["c09"] = func(c *Case) (string, string, error) {
		var cfg [][]string
		if l, ok := c.Args["config"].([]interface{}); ok {
			for _, w := range l {
				var script []string
				for _, op := range w.([]interface{}) {
					script = append(script, op.(string))
				}
				cfg = append(cfg, script)
			}
		}
		var choices []int
		if l, ok := c.Args["choices"].([]interface{}); ok {
			for _, x := range l {
				choices = append(choices, int(x.(float64)))
			}
		}
		stdlib.VerifYield = c09Yield
		defer func() { stdlib.VerifYield = nil }()
		dir, err := os.MkdirTemp("", "c09replay")
		if err != nil {
			return "", "", err
		}
		defer os.RemoveAll(dir)
		os.WriteFile(filepath.Join(dir, "prog.py"), []byte("x = 1\n"), 0o644)
		code, _ := py.Compile("x = 1\n", "<c09>", py.ExecMode, 0, true)
		hold, _ := py.Compile("import verifhold\nverifhold.hold()\n", "<c09hold>", py.ExecMode, 0, true)
		res := c09RunSchedule(cfg, choices, dir, code, hold)
		if res.violation == "infra" {
			return "", "", fmt.Errorf("%s", res.detail)
		}
		return res.violation, res.detail, nil
	}
}

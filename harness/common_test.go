//go:build verif

package harness

import (
	"os"
	"testing"
)

// TestReplay re-executes one saved case (VERIF_REPLAY=<file>) without any generator.
func TestReplay(t *testing.T) {
	path := os.Getenv("VERIF_REPLAY")
	if path == "" {
		t.Skip("VERIF_REPLAY not set")
	}
	c, err := LoadCase(path)
	if err != nil {
		t.Fatalf("INFRA: %v", err)
	}
	rp, ok := replayers[c.Kind]
	if !ok {
		t.Fatalf("INFRA: no replayer for kind %q", c.Kind)
	}
	sig, detail, err := rp(c)
	if err != nil {
		t.Fatalf("INFRA: %v", err)
	}
	if sig != "" {
		t.Errorf("REPLAY-FAILS property=%s sig=%s %s", c.Property, sig, detail)
	} else {
		t.Logf("REPLAY-PASSES property=%s", c.Property)
	}
}

// TestSelf checks the scaffolding dialect and the oracle round trip (DESIGN section 2).
func TestSelf(t *testing.T) {
	prog := "_res = []\n_res.append(1)\n_res.append('a\\u20ac')\n_res.append((1, 2.5, None, True))\n_res.append([b'x', {'k': 2}])\n" +
		"def f(x):\n    try:\n        return 1 // x\n    except ZeroDivisionError:\n        return 'zde'\n_res.append(f(0))\n_res.append(2**70)\n_res.append({1, 2})\n"
	d, err := PyDiff(prog, PyDiffOpts{Vars: []string{"_res"}})
	if err != nil {
		t.Fatalf("INFRA: %v", err)
	}
	if d.Sig != "" {
		t.Fatalf("INFRA: self-test diverges: %s expected %s actual %s", d.Sig, d.Expected, d.Actual)
	}
	if d.G.Obs["_res"] == "" {
		t.Fatalf("INFRA: self-test observed nothing")
	}
	t.Log(d.G.Obs["_res"])
}

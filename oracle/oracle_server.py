# CPython side of the differential oracle (DESIGN.md section 3.1).
# Protocol: one JSON object per line on stdin, one JSON object per line on stdout.
#   {"op":"run","src":..., "vars":[...], "path":dir|null, "mode":"exec"|"eval"|"single", "argv":[...]}
#   -> {"exc":name|null, "compile":bool, "tb":[[func,line],...], "obs":{var:enc}, "stdout":text, "excs":[mro names]}
#   {"op":"ast","src":...,"mode":...} -> {"ok":bool,"tree":canon|null}
#   {"op":"complete","src":...} -> {"status":"complete"|"incomplete"|"error"}
#   {"op":"version"} -> {"version":"3.6.15"}
# Must run unchanged on 3.6 .. 3.11.
import sys, json, io, traceback, signal, struct, ast, codeop, os

sys.setrecursionlimit(3000)
_real_stdout = sys.stdout
_real_stdin = sys.stdin


def enc(x, depth=0):
    if depth > 40:
        return "<deep>"
    t = type(x)
    if x is None:
        return "N"
    if t is bool:
        return "T" if x else "F"
    if t is int:
        return "i%d" % x
    if t is float:
        if x != x:
            return "fnan"
        return "f%016x" % struct.unpack("<Q", struct.pack("<d", x))[0]
    if t is complex:
        return "c(" + enc(x.real) + "," + enc(x.imag) + ")"
    if t is str:
        return "s(" + ",".join(str(ord(c)) for c in x) + ")"
    if t is bytes:
        return "b(" + x.hex() + ")"
    if t is tuple:
        return "t[" + ",".join(enc(i, depth + 1) for i in x) + "]"
    if t is list:
        return "l[" + ",".join(enc(i, depth + 1) for i in x) + "]"
    if t is dict:
        return "d{" + ",".join(sorted(enc(k, depth + 1) + ":" + enc(v, depth + 1) for k, v in x.items())) + "}"
    if t is set:
        return "S{" + ",".join(sorted(enc(i, depth + 1) for i in x)) + "}"
    if t is frozenset:
        return "Z{" + ",".join(sorted(enc(i, depth + 1) for i in x)) + "}"
    if t is range:
        return "r(%d,%d,%d)" % (x.start, x.stop, x.step)
    if t is slice:
        return "sl(" + enc(x.start) + "," + enc(x.stop) + "," + enc(x.step) + ")"
    return "<" + t.__name__ + ">"


class _Timeout(BaseException):
    pass


def _alarm(signum, frame):
    raise _Timeout()


signal.signal(signal.SIGALRM, _alarm)


def run(req):
    src = req["src"]
    mode = req.get("mode", "exec")
    path = req.get("path")
    out = {"exc": None, "compile": False, "tb": [], "obs": {}, "stdout": "", "value": None}
    try:
        code = compile(src, "<case>", mode, 0, True)
    except SyntaxError as e:
        out["exc"] = type(e).__name__
        out["compile"] = True
        out["lineno"] = e.lineno
        return out
    except (ValueError, OverflowError, RecursionError, MemoryError) as e:
        out["exc"] = type(e).__name__
        out["compile"] = True
        return out
    # the program runs as the module __main__ of its interpreter: a module object registered under that name,
    # so that "import __main__" from an imported module finds the running program
    import types
    mainmod = types.ModuleType("__main__")
    g = mainmod.__dict__
    g["__builtins__"] = __builtins__
    saved_main = sys.modules.get("__main__")
    sys.modules["__main__"] = mainmod
    buf = io.StringIO()
    saved_path = list(sys.path)
    saved_argv = list(sys.argv)
    before_mods = set(sys.modules)
    if path:
        sys.path.insert(0, path)
    if "argv" in req:
        sys.argv = list(req["argv"])
    sys.stdout = buf
    signal.alarm(int(req.get("timeout", 20)))
    try:
        try:
            if mode == "eval":
                out["value"] = enc(eval(code, g))
            else:
                exec(code, g)
        except _Timeout:
            out["exc"] = "TIMEOUT"
        except BaseException as e:
            out["exc"] = type(e).__name__
            out["excs"] = [c.__name__ for c in type(e).__mro__]
            tb = traceback.extract_tb(e.__traceback__)
            out["tb"] = [[fs.name, fs.lineno] for fs in tb if fs.filename == "<case>"]
    finally:
        signal.alarm(0)
        sys.stdout = _real_stdout
        if saved_main is not None:
            sys.modules["__main__"] = saved_main
        sys.path[:] = saved_path
        sys.argv = saved_argv
        for m in list(sys.modules):
            if m not in before_mods:
                del sys.modules[m]
    for v in req.get("vars", []):
        if v in g:
            try:
                out["obs"][v] = enc(g[v])
            except BaseException as e:
                out["obs"][v] = "<encerr:" + type(e).__name__ + ">"
    out["stdout"] = buf.getvalue()
    return out


# ---------------------------------------------------------------- AST canonical form (C06)
def canon(node):
    """Canonical positional text of a CPython (3.6/3.7) AST in the Python 3.4 field set; matches harness/astcanon.go."""
    if node is None:
        return "None"
    if isinstance(node, list):
        return "[" + ",".join(canon(n) for n in node) + "]"
    if isinstance(node, ast.AST):
        name = type(node).__name__
        low = name.lower()
        if name in ("JoinedStr", "FormattedValue", "AnnAssign", "AsyncFunctionDef", "AsyncFor", "AsyncWith", "Await", "MatMult", "Constant"):
            raise ValueError("fenced: post-3.4 node " + name)
        if name == "Starred" and isinstance(node.ctx, ast.Load):
            # a starred expression in load context outside a call's argument list is PEP 448 (3.5+)
            raise ValueError("fenced: PEP 448 starred display")
        if name == "Num":
            n = node.n
            if isinstance(n, complex):
                return "num(c:" + enc(n.imag) + ")"
            return "num(" + enc(n) + ")"
        if name == "Str":
            return "str(" + enc(node.s) + ")"
        if name == "Bytes":
            return "bytes(" + enc(node.s) + ")"
        if name == "NameConstant":
            return "nameconstant(" + enc(node.value) + ")"
        if not node._fields:
            return low
        if name in ("Call", "ClassDef"):
            # fold *args / **kwargs back into the 3.4 shape
            posargs = node.args if name == "Call" else node.bases
            args, star, kws, dstar = [], None, [], None
            bad = False
            for a in posargs:
                if isinstance(a, ast.Starred):
                    if _parenthesised_star(a):
                        # f(b, (*l)): the 3.4 tree keeps the starred expression as a positional argument, the 3.6 tree
                        # cannot tell it from f(b, *l)
                        raise ValueError("fenced: parenthesised starred argument")
                    if star is not None:
                        bad = True
                    star = a.value
                else:
                    if star is not None:
                        bad = True  # positional after *x: 3.5+ only
                    args.append(a)
            for k in node.keywords:
                if k.arg is None:
                    if dstar is not None:
                        bad = True
                    dstar = k.value
                else:
                    if dstar is not None:
                        bad = True  # keyword after **x: 3.5+ only
                    kws.append(k)
            if bad:
                raise ValueError("fenced: PEP 448 call")
            if name == "Call":
                return "call(%s,%s,%s,%s,%s)" % (canon(node.func), canon(args), canon(kws), canon(star), canon(dstar))
            return "classdef(%s,%s,%s,%s,%s,%s,%s)" % (canon(node.name), canon(args), canon(kws), canon(star), canon(dstar), canon(node.body), canon(node.decorator_list))
        parts = []
        for f in node._fields:
            if name == "comprehension" and f == "is_async":
                continue
            v = getattr(node, f, None)
            if name == "Dict" and f == "keys" and any(k is None for k in v):
                raise ValueError("fenced: PEP 448 dict")
            parts.append(canon(v))
        if name in ("JoinedStr", "FormattedValue", "AnnAssign", "AsyncFunctionDef", "AsyncFor", "AsyncWith", "Await", "MatMult", "Constant"):
            raise ValueError("fenced: post-3.4 node " + name)
        return low + "(" + ",".join(parts) + ")"
    if isinstance(node, str):
        return "id:" + node
    if isinstance(node, bool):
        return "T" if node else "F"
    if isinstance(node, int):
        return "n%d" % node
    return "?" + repr(node)


_SRC_LINES = []


def _parenthesised_star(node):
    """True if the * of this Starred node directly follows an opening parenthesis which itself follows a comma or another
    opening parenthesis (so it is not the parenthesis of the call)."""
    try:
        line = _SRC_LINES[node.lineno - 1]
    except IndexError:
        return False
    # col_offset counts UTF-8 bytes: look at the line as bytes
    line = line.encode("utf-8", "surrogatepass")
    line = "".join(chr(b) if b < 128 else "x" for b in line)
    i = min(node.col_offset, len(line)) - 1
    while i >= 0 and line[i] in " \t\f":
        i -= 1
    if i < 0:
        return True  # the * starts its line: which parenthesis it follows is on another line - not judged
    if line[i] != "(":
        return False
    i -= 1
    while i >= 0 and line[i] in " \t\f":
        i -= 1
    return i < 0 or line[i] in ",(" or line[i] == "\\"


def trailing_comma_after_star(src):
    """True if a parameter or argument list has a trailing comma after a * or ** item:
    the 3.4 grammar (typedargslist, varargslist, arglist) does not allow it, 3.6 does."""
    import io
    import tokenize
    stack = []
    prev = None
    try:
        for tok in tokenize.generate_tokens(io.StringIO(src).readline):
            tt, ts = tok[0], tok[1]
            if tt in (tokenize.NL, tokenize.NEWLINE, tokenize.COMMENT, tokenize.INDENT, tokenize.DEDENT, tokenize.ENDMARKER):
                continue
            if tt == tokenize.NAME and ts == "lambda":
                stack.append({"kind": "lambda", "star": False, "start": True})
                prev = ts
                continue
            if tt == tokenize.OP and ts in "([{":
                if stack:
                    stack[-1]["start"] = False
                stack.append({"kind": ts, "star": False, "start": True})
                prev = ts
                continue
            if tt == tokenize.OP and ts in ")]}":
                if stack and stack[-1]["kind"] in "([{":
                    ctx = stack.pop()
                    if ctx["kind"] == "(" and ctx["star"] and prev == ",":
                        return True
                prev = ts
                continue
            if tt == tokenize.OP and ts == ":" and stack and stack[-1]["kind"] == "lambda":
                ctx = stack.pop()
                if ctx["star"] and prev == ",":
                    return True
                prev = ts
                continue
            if stack:
                ctx = stack[-1]
                if tt == tokenize.OP and ts in ("*", "**") and ctx["start"]:
                    ctx["star"] = True
                ctx["start"] = tt == tokenize.OP and ts == ","
            prev = ts
    except (tokenize.TokenError, IndentationError, SyntaxError):
        return False
    return False


def do_ast(req):
    mode = req.get("mode", "exec")
    try:
        tree = ast.parse(req["src"], "<case>", mode)
    except SyntaxError as e:
        return {"ok": False, "exc": type(e).__name__, "msg": str(e.msg)}
    except (ValueError, OverflowError, RecursionError, MemoryError) as e:
        return {"ok": False, "exc": type(e).__name__, "msg": ""}
    global _SRC_LINES
    _SRC_LINES = req["src"].replace("\r\n", "\n").replace("\r", "\n").split("\n")
    if trailing_comma_after_star(req["src"]):
        return {"ok": True, "tree": None, "fenced": "fenced: trailing comma after * or ** (3.6 grammar)"}
    try:
        return {"ok": True, "tree": canon(tree)}
    except ValueError as e:
        return {"ok": True, "tree": None, "fenced": str(e)}
    except RecursionError:
        return {"ok": True, "tree": None, "fenced": "recursion"}


def do_compile(req):
    try:
        compile(req["src"], "<case>", req.get("mode", "exec"), 0, True)
    except SyntaxError as e:
        return {"ok": False, "exc": type(e).__name__}
    except (ValueError, OverflowError, RecursionError, MemoryError) as e:
        return {"ok": False, "exc": type(e).__name__}
    return {"ok": True}


def do_complete(req):
    try:
        c = codeop.compile_command(req["src"], "<case>", "single")
    except (SyntaxError, OverflowError, ValueError):
        return {"status": "error"}
    return {"status": "incomplete" if c is None else "complete"}


def main():
    for raw in _real_stdin.buffer:
        line = raw.decode("utf-8").strip()
        if not line:
            continue
        try:
            req = json.loads(line)
            op = req.get("op", "run")
            if op == "run":
                resp = run(req)
            elif op == "ast":
                resp = do_ast(req)
            elif op == "compile":
                resp = do_compile(req)
            elif op == "complete":
                resp = do_complete(req)
            elif op == "version":
                resp = {"version": "%d.%d.%d" % sys.version_info[:3]}
            else:
                resp = {"error": "bad op"}
        except BaseException as e:  # harness error, reported as such
            resp = {"error": "oracle server: %s: %s" % (type(e).__name__, e)}
        _real_stdout.write(json.dumps(resp) + "\n")
        _real_stdout.flush()


if __name__ == "__main__":
    main()

#!/bin/sh
# MANIFEST.setup_cmd: build the harness once (warms the Go build cache); offline.
cd "$(dirname "$0")" && exec ./check --build
